#!/bin/bash
# usage: tools_suite.sh <repo-like dir with include/>  -- builds and runs the repository's test suite against it (no cmake)
set -e
INC=$1/include
OUT=/var/tmp/suite_$$
mkdir -p $OUT
ls /repo/test/*.cpp /repo/test/*/*.cpp | xargs -P16 -I{} sh -c 'g++ -std=c++11 -O0 -I'$INC' -I/repo/external -I/repo/test -c {} -o '$OUT'/$(echo {} | md5sum | cut -c1-12).o 2>'$OUT'/err_$(basename {}).txt || echo COMPILE-FAIL {}'
g++ $OUT/*.o -o $OUT/suite
$OUT/suite > $OUT/log.txt 2>&1 || true; (grep -B2 -A12 "ERROR:" $OUT/log.txt || true) | head -${SUITE_LINES:-0}; tail -4 $OUT/log.txt
rc=$(grep -c "Status: SUCCESS" $OUT/log.txt); rc=$((1-rc))
rm -rf $OUT
exit $rc
