#!/usr/bin/env python3
"""seed_update.py <sid> [logfile]: merge the check verdicts of the latest seed_vet.sh log into seeded/<sid>/meta.json"""
import json, re, sys
sid = sys.argv[1]
logf = sys.argv[2] if len(sys.argv) > 2 else "/var/tmp/vet_%s.log" % sid
log = open(logf, errors="replace").read()
mp = "/verif/seeded/%s/meta.json" % sid
meta = json.load(open(mp))
checks, cur = meta.setdefault("checks_run_against_it", {}), None
for line in log.splitlines():
    m = re.match(r"== check (C\d+) quick", line)
    if m:
        cur = m.group(1); checks[cur] = {"verdict": "no result", "fingerprints": []}; continue
    if cur:
        m = re.match(r"\s+([a-zA-Z0-9_/().\-:=|!<>&*,;\[\]]+): \[", line)
        if m: checks[cur]["fingerprints"].append(m.group(1))
        m = re.search(r"%s quick: (\w+) in" % cur, line)
        if m: checks[cur]["verdict"] = m.group(1)
json.dump(meta, open(mp, "w"), indent=1)
print(sid, {k: v["verdict"] for k, v in checks.items()})
