SOURCE_COMMITS = ["2f4e168"]
NOTES = ("All checks: python3 vt.py <id> --tier quick|thorough. Exploration runs on the real library; reference oracles are "
         "small C++ models next to the harness. Defects found so far were repaired by 'fix:' commits in /repo and are listed "
         "in known_findings.txt as fixed: entries. See DESIGN.md.")
ENGINES = [
    {"name": "vt-engine", "path": "/verif/engine", "serves_properties": ["C01", "C02", "C03", "C04", "C05", "C06", "C08", "C09", "C10", "C11", "C13", "C14", "C15", "C16"],
     "kind_free_text": "explicit-state BFS to a fixpoint over quiescent states of generated machines, executed on the real library (fresh instance + history replay per edge), with deviation-bounded enumeration of every callback decision inside a step; monitors and a reference semantics evaluated on every edge"},
    {"name": "vt-component", "path": "/verif/harness", "serves_properties": ["C07", "C12", "C17", "C18", "C19", "C20"],
     "kind_free_text": "explicit-state BFS / bounded-exhaustive enumeration over the concrete state of real library components, compared edge by edge with std containers or independent reference code"},
]
PENDING = {}

ENGINE_NOTE = ("Trusts g++/clang++, the -fno-access-control probe used for the canonical state key, and the independently "
               "numbered structure descriptor (cross-checked against the library's registry before exploring). Bounds: the "
               "curated program set (thorough: plus the systematic family of all trees with <= 4 states and the spine family of kind chains, C01-C05 C09 C13), <= 1 (thorough 2) non-default callback decisions per "
               "step, request batches of <= 2 (thorough 3); documented preconditions respected.")

chk("C01", "model_checking",
    "All reachable quiescent states of every generated program (BFS to a fixpoint on the real library) x the full API alphabet x all request batches up to the bound x every choice vector with <= d non-default callback decisions; the well-formedness invariant is evaluated with the public queries at every state and with Control inside every update/react/query/guard callback. This is the quantifier of the property (all states, all requests, all callback decisions) within explicit bounds, which the literal-log tests cannot reach.",
    ENGINE_NOTE, "explicit-state model checking of the real implementation (BFS fixpoint + deviation-bounded DFS), invariant oracle", "DESIGN.md 3, 4 C01")
chk("C02", "model_checking",
    "Every edge of the same exhaustive exploration is compared with a reference semantics written from the property text (engine/refmodel.hpp): configuration equality for single requests and for batches (map semantics: every request's path is kept unless a later one conflicts; one known finding, one not-judged class, see DESIGN 11.1/11.3) plus the statement-level clauses for batches, resumable marks against delivered exit() callbacks, reset() vs first activation, empty step. traces_validated_against_impl = edges compared.",
    ENGINE_NOTE + " Under-specified corners follow the weakest reading (DESIGN.md 3.4 policy).", "explicit-state model checking with a reference-model oracle on every edge", "DESIGN.md 3.4, 4 C02")
chk("C03", "model_checking",
    "Every execution of the exhaustive exploration is extended to the destruction of the instance and a per-state lifecycle automaton (alternation, delivery only while entered, nesting, nothing entered at the end, this == &access<State>()) runs over the complete callback trace.",
    ENGINE_NOTE, "explicit-state model checking, trace-automaton oracle over complete histories", "DESIGN.md 4 C03")
chk("C07", "model_checking",
    "BFS to a fixpoint over the concrete plan storage (per-region lists, task links, bounds, pool counters) of a real 3-region machine for task capacities 1..3 (thorough 1..5), void and int payloads, ops append / remove-while-iterating (every subset) / clear on every region / the whole-storage reset PlanData::clear() that exit() and load() perform, each edge compared with a vector-of-vectors reference and a structural invariant on the raw links.",
    "Trusts the compilers, sanitizers and std::vector reference; states are op histories replayed on fresh instances; capacities above 5 not explored.",
    "explicit-state BFS on the real plan storage with reference-container oracle", "DESIGN.md 4 C07")
chk("C18", "exploration",
    "Bounded-exhaustive enumeration: all 2^N contents x all ops for N<=10 (thorough 13) and structured states for N up to 64; every (unit,width) view on guard-paged and exact-size heap copies; every start alignment x width 1..32 x value alphabet for streams with sentinel; long streams (2048..8200 bits, thorough to 65535) with cursors around every 256-byte boundary; compared with bitset/bit-vector references.",
    "Trusts compilers, ASan, mprotect guard pages, the reference bit vectors. The boolean operator& on intersecting sets is only observed (its meaning is not stated by the property).",
    "bounded-exhaustive enumeration of inputs with reference oracle", "DESIGN.md 4 C18")
chk("C19", "model_checking",
    "Explicit-state BFS to a fixpoint over every concrete state (links, vacant list, counters, contents) of the real TaskListT for capacities 1..4 (thorough 1..6), DynamicArrayT for all contents up to capacity 4 (6) plus complete fill paths at capacities 15..17, 127, 128, 255..257 and 65535 (index-type widths), and StaticArrayT for all tuples over a small alphabet; each edge is checked against std::map/std::vector and after every clear() a lock-step product search against a fresh pool decides 'behaves as new'.",
    "Trusts g++/clang++, ASan/UBSan, the std containers used as reference; pool capacities above 6 and item alphabets above 2 letters are not explored, array capacities above 6 only along the fill path; objects are branched by value copy.",
    "explicit-state BFS on the real containers with a reference-container oracle", "DESIGN.md 4 C19")
chk("C20", "exploration",
    "All 2^32 seeds of the 32-bit variants (thorough; quick 2^22) and all 2^32 arguments of uniform(uint32_t), windows of 64-bit seeds x 256 outputs, jump(), compared with an independent transcription of the published splitmix/xoshiro reference code (self-checked against published test vectors); digests compared across g++/clang++ builds and re-runs.",
    "Trusts the transcription of the published algorithms (validated against known answers), the compilers; 64-bit seeds and stream positions outside the windows rest on the step functions being state-independent code.",
    "exhaustive enumeration of the 32-bit seed/argument space with reference-implementation oracle", "DESIGN.md 4 C20")

chk("C04", "model_checking",
    "From every reachable quiescent state every request op is run with every guard decision vector of <= d deviations (cancel, cancel+substitute kind x state, extra request) and with adversarial always-repeat guard scripts under substitution limits 1, 2, 4; a per-call trace monitor checks guard precedence and round bounds and a differential oracle ('X vetoed, Y substituted' == 'Y alone'; 'X vetoed' == nothing) decides veto atomicity on every such edge.",
    ENGINE_NOTE + " Rounds are reconstructed from guard callbacks; the quick tier uses the reduced guard menus on change/restart/resume ops.",
    "explicit-state model checking with trace-monitor and differential oracles over all guard decisions", "DESIGN.md 4 C04")
chk("C05", "model_checking",
    "Every reachable configuration x {update, react, query} x {TopDown, BottomUp} x every consuming (state, phase): the delivered callback sequence of each pass is compared with the sequence computed from the independent descriptor and the configuration, including injected bases and the cut at the consuming state.",
    ENGINE_NOTE, "explicit-state model checking, expected-order oracle per pass", "DESIGN.md 4 C05")
chk("C13", "model_checking",
    "All reachable quiescent states and all single-request edges: activeSubState/isResumable consistency for all ids, resume activates the reported sub-state, and inside every first-round guard callback isPendingEnter/Exit/Change for all ids against the enter/exit callbacks the approved round delivers. Known findings (nearest-ancestor-only answers) are listed in known_findings.txt with witness-specific keys.",
    ENGINE_NOTE, "explicit-state model checking, in-callback query snapshots vs outcome", "DESIGN.md 4 C13")

chk("C08", "model_checking",
    "All ordered pairs (source, destination) of the reachable quiescent states of every serializable program (automatic and manual, incl. inactive) are exercised on real instances: save must be const, load must reproduce active and resumable configuration with the right exit/enter callbacks and a balanced lifecycle, re-save must be bit-identical, buffers are exactly sized heap blocks under ASan/UBSan in the sanitizer builds.",
    ENGINE_NOTE + " Pairs are capped at 500 (thorough 2500) states per program; the cap is reported.",
    "explicit-state closure + exhaustive pairwise differential on the real implementation", "DESIGN.md 4 C08")
chk("C09", "model_checking",
    "Every explored processing edge (requests, batches, callback requests, all guard cancel/substitute deviations, manual initial activation) compares previousTransitions()/lastTransitionTo() with the environment's own record of approved and vetoed rounds, and replays the recorded list on an identically prepared replica, which must reach the same configuration without consulting guards and end with exactly the replayed list as its own history; re-activation (enter / replayEnter) is explored from every exit history, not only from the representative of the merged state key.",
    ENGINE_NOTE, "explicit-state model checking with authority/replica differential on every edge", "DESIGN.md 4 C09")
chk("C10", "model_checking",
    "Over the complete reachable state graph: every base edge re-executed in storage pre-filled with 0x00/0xFF/0xA5 at fresh addresses (scripted and built-in generator, two compilers) must give identical traces and keys, and so must every plan setup + step (tasks with and without payload) on plan programs with a payload type; ordered pairs of histories interleaved on two instances; at every state a copy must continue like the original, not alias it, and leave it unaffected.",
    ENGINE_NOTE + " Memory pre-fill patterns are three representatives, not all byte values.",
    "explicit-state model checking with differential (fill / interleaving / copy) oracles", "DESIGN.md 4 C10")

chk("C06", "model_checking",
    "From every plan-free reachable state every plan scenario (single tasks, ordered pairs, across nested/orthogonal owners, void and payload) is attached through the real Plan API and stepped with update()/react() under every choice vector with <= 2 callback decisions (succeed/fail in any phase of any active state, swallowed or re-requesting plan result handlers); safety (justified, in-order, once, removed, marks cleared) is strict, liveness is demanded in the unambiguous class the statement defines.",
    ENGINE_NOTE + " Plan contents are bounded by the scenario alphabet; library-issued requests are identified through the attached logger.",
    "explicit-state model checking over plan scenarios with a reference plan model on every step", "DESIGN.md 4 C06")
chk("C14", "model_checking",
    "Three payload types x programs: every request and plan task of the exhaustive exploration carries a unique tag; in-callback monitors (guards, enter/exit, update/react) and post-step checks read every exposed transition and require the tag to belong to the request with that origin, kind and destination, nullptr for payload-less requests, and correct alignment.",
    ENGINE_NOTE, "explicit-state model checking with tagged-payload provenance oracle", "DESIGN.md 4 C14")
chk("C16", "model_checking",
    "The exhaustive exploration runs with a recording logger (interface and verbose mode): on every edge the logger record is merged with the callbacks' own trace (one report per invoked callback / request / cancel / status / resolution, nothing extra), every base edge is re-run without logger and must be identical, structure()/activityHistory() are compared with isActive() after every step and the saturating recurrence over a 300-step tail.",
    ENGINE_NOTE, "explicit-state model checking, logger-vs-trace merge oracle", "DESIGN.md 4 C16")

chk("C11", "exploration",
    "The exhaustive exploration is re-run under ASan+UBSan (recover mode, reports counted) with the library's own assertions routed to the verification hook, the instance living in an exactly sized heap block; a dedicated capacity alphabet from every reachable state (request bursts of cap, cap+1, cap+2, 2*cap with a differential 'equals the accepted prefix' oracle; every active state requesting in one update; task floods beyond TASK_CAPACITY; replayTransitions with over-long lists; schedule(root); copy used after its original is destroyed, in a forked child) and a separate build with malloc/calloc/realloc wrapped and operator new replaced that counts allocations while any API call is on the stack.",
    "Trusts ASan/UBSan, the interposers (self-tested at start-up), the assertion hook. Sanitizer level 'exploration': absence of reports on everything explored, not a proof. Bounds: curated programs, bursts up to 2x capacity.",
    "bounded-exhaustive exploration of operation sequences with sanitizer / assertion / allocation-counter oracles", "DESIGN.md 4 C11")
chk("C12", "exploration",
    "Dedicated machines (flat Utilitarian/Random regions of width 2..5, nested and orthogonal combinations) driven through utilize / randomize / changeTo with every rank vector over {-1,0,1}, every utility vector over {0,1,2,3} and r = k/64 (exact integer oracle, strict equality of the activated configuration) and a rounding domain (8-value utility grid incl. 2^-24, 1e10; r adjacent to every cumulative boundary and to 1) with hard rules (something selected, top rank, positive utility, one draw per region) and a 4-ulp interval rule.",
    "Trusts the exact-arithmetic oracle (integers / long double), compilers; float inputs outside the listed alphabets and headless regions are not covered.",
    "bounded-exhaustive input enumeration with exact-arithmetic oracle", "DESIGN.md 4 C12")
chk("C15", "exploration",
    "One program family per structure, driven over its complete reachable state graph with batches and one callback deviation using only the feature-independent alphabet, compiled under a strength-2 covering array (thorough: all 256 combinations) of the eight HFSM2_ENABLE_* switches x payload x substitution limit x task capacity x single/split headers x g++/clang++ x -std; the 64-bit digest over every callback, request, answer and resulting state of the whole exploration must be identical within a family; tools/join.py must reproduce the single header byte for byte.",
    "Combinations that do not compile are listed, not judged. Trusts the digest (FNV-1a over the complete behaviour record).",
    "full-factorial / covering-array configuration differential over an exhaustive exploration", "DESIGN.md 4 C15")
chk("C17", "exploration",
    "All ordered tree shapes with <= 5 (thorough 7) states over composite/orthogonal x headed/headless (plus strategy relabellings, wide regions of every width 1..17 at depth 0..2 and flat composites on both sides of every power of two up to width 254): identifiers, region ids and every published count are compared value by value with an independent Python numbering, the registry filled at construction (parents, region heads/sizes, ortho units) likewise, peers with the same shape compared directly, and all five copies of stateId<>()/regionId<>() (FSM, Instance, State, ConstControl, Control) compared for every named state; three compiler/header variants.",
    "Trusts the independent numbering in gen/structures.py (reviewed against the declaration rules) and the compilers; shapes beyond 7 states only through the wide/big families.",
    "bounded-exhaustive enumeration of programs with an independent-numbering oracle", "DESIGN.md 4 C17")
