SOURCE_COMMITS = ["2f4e168"]
NOTES = "All checks: python3 vt.py <id> --tier quick|thorough. Exploration runs on the real library; reference oracles are small C++ models next to the harness. See DESIGN.md."
ENGINES = [
    {"name": "vt-component", "path": "/verif/harness", "serves_properties": ["C19"],
     "kind_free_text": "explicit-state BFS to a fixpoint over the concrete state of real library containers, compared edge by edge with std containers"},
]
PENDING = {}

chk("C19", "model_checking",
    "Explicit-state BFS to a fixpoint over every concrete state (links, vacant list, counters, contents) of the real TaskListT for capacities 1..4 (thorough 1..6), DynamicArrayT for all contents up to capacity 4 (6) and StaticArrayT for all tuples over a small alphabet; each edge is checked against std::map/std::vector and after every clear() a lock-step product search against a fresh pool decides 'behaves as new'. Exhaustive for those capacities and the 2-letter item alphabet - enough to drive every branch (recycle/grow/last/full, partial/from-full) in every order, which tests cannot enumerate.",
    "Trusts g++/clang++, ASan/UBSan, the std containers used as reference; capacities above 6 and item alphabets above 2 letters are not explored; objects are branched by value copy.",
    "explicit-state BFS on the real containers with a reference-container oracle",
    "DESIGN.md section 4 C19")
