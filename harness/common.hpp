// Shared bits for the stand-alone component harnesses (C07 C12 C17 C18 C19 C20).
// Each harness prints JSON objects, one per line:
//   {"type":"violation","fingerprint":"...","message":"...","replay":{...}}
//   {"type":"summary", ...counts...}
#pragma once
#include <cstdio>
#include <cstdlib>
#include <cstring>
#include <map>
#include <set>
#include <sstream>
#include <string>
#include <vector>

namespace vt {

// ---- assertion hook -----------------------------------------------------------------------------
struct BreakLog {
	long count = 0;
	const char* file = nullptr;
	int line = 0;
};
inline BreakLog& breaks() { static BreakLog b; return b; }

inline std::string jesc(const std::string& s) {
	std::string o;
	for (char c : s) {
		if (c == '"' || c == '\\') { o += '\\'; o += c; }
		else if (c == '\n') o += "\\n";
		else if ((unsigned char) c < 0x20) { char b[8]; snprintf(b, sizeof b, "\\u%04x", c); o += b; }
		else o += c;
	}
	return o;
}

struct Reporter {
	std::map<std::string, long> perFingerprint;
	long violations = 0;
	long maxPerFingerprint = 3;

	// replayJson must be a complete JSON value
	void violation(const std::string& fingerprint, const std::string& message, const std::string& replayJson) {
		++violations;
		long& n = perFingerprint[fingerprint];
		if (++n > maxPerFingerprint) return;
		printf("{\"type\":\"violation\",\"fingerprint\":\"%s\",\"message\":\"%s\",\"replay\":%s}\n",
			   jesc(fingerprint).c_str(), jesc(message).c_str(), replayJson.c_str());
		fflush(stdout);
	}
};
inline Reporter& rep() { static Reporter r; return r; }

template <typename T>
inline std::string str(const T& v) { std::ostringstream o; o << v; return o.str(); }

} // namespace vt

#ifdef HFSM2_VERIF
extern "C" void hfsm2_verif_break(const char* file, int line) noexcept {
	vt::BreakLog& b = vt::breaks();
	++b.count;
	b.file = file;
	b.line = line;
}
#endif
