// C18: bit arrays, their sub-range views and bit streams vs. ideal sets / ideal bit sequences.
//
//  * BitArrayT<N>: explicit-state exploration of the *concrete* object (storage bytes, padding included) from a
//    freshly constructed array, every edge compared with a std::bitset reference. N <= 10: every reachable
//    concrete state x every operation x every ordered pair of states for the binary operators (thorough: N <= 13).
//    Larger N: the same exploration restricted to states with <= 2 or >= N-1 members and prefix/suffix intervals.
//  * Bits / CBits views: every (unit, width) with 8*unit+width <= N, in four forms (dynamic/static view x
//    dynamic/static index). Every call is made on three copies of the parent object: one that ends exactly at a
//    PROT_NONE page (an over-read/over-write faults, is caught, reported with its own fingerprint and the run goes
//    on), one that starts exactly after a PROT_NONE page, and one in an exactly-sized malloc block (AddressSanitizer
//    backstop; skipped for a call that already faulted on a guard page, because that call has been reported).
//  * StreamBufferT / BitWriteStreamT / BitReadStreamT: every start alignment x every width x value sets, pairs and
//    triples of fields, buffers in exactly-sized malloc blocks, independent reference bit vector.
//
// Oracles only talk about what the property promises: membership of indices < N, emptiness, equality of sets,
// intersection, the addressed range of a view, read-back values and cursors, equality of buffer contents.
// Padding bits and the bit layout inside the stream buffer are NOT part of any oracle.
#define HFSM2_ENABLE_SERIALIZATION
#ifdef VT_ASSERT
#define HFSM2_ENABLE_ASSERT
#endif
#ifdef VT_DEV_HEADER
#include <hfsm2/machine_dev.hpp>
#else
#include <hfsm2/machine.hpp>
#endif
#include "harness/common.hpp"
#include <algorithm>
#include <bitset>
#include <csetjmp>
#include <csignal>
#include <deque>
#include <new>
#include <sys/mman.h>
#include <unistd.h>
#include <unordered_map>
#include <utility>

// VT_PART splits the work over several binaries (compile time; they are built and run in parallel): 0 = everything,
// 1 = N 1..13, 2 = N 14..17 and 24, 3 = N 31..33, 4 = N 64, 5 = streams + buffers
#ifndef VT_PART
#define VT_PART 0
#endif

using namespace hfsm2;
using namespace hfsm2::detail;

// ---- counters ----------------------------------------------------------------------------------------------------

static bool g_thorough = false;
static long g_eval = 0;  // every comparison of a library result with the reference
static long g_arrStates = 0, g_arrEvals = 0, g_pairEvals = 0, g_viewEvals = 0, g_viewCases = 0;
static long long g_andIntersectsObserved = 0;
static long g_streamTrips = 0, g_streamEvals = 0, g_bufEvals = 0, g_layoutMismatch = 0, g_heapSkipped = 0;
static std::vector<uint64_t> g_nt;  // hashed keys of non-trivial cases (sorted + uniqued at the end)
static std::vector<std::string> g_samples;

static inline uint64_t mix(uint64_t x) {
	x += 0x9e3779b97f4a7c15ULL;
	x = (x ^ (x >> 30)) * 0xbf58476d1ce4e5b9ULL;
	x = (x ^ (x >> 27)) * 0x94d049bb133111ebULL;
	return x ^ (x >> 31);
}
static inline uint64_t ckey(uint64_t a, uint64_t b, uint64_t c = 0, uint64_t d = 0, uint64_t e = 0, uint64_t f = 0, uint64_t g = 0) {
	uint64_t h = mix(a);
	h = mix(h ^ b); h = mix(h ^ c); h = mix(h ^ d); h = mix(h ^ e); h = mix(h ^ f); h = mix(h ^ g);
	return h;
}
static inline void nontrivial(uint64_t k) { g_nt.push_back(k); }

// violation with lazily built message/replay (some defect classes fire millions of times)
template <typename F>
static void violate(const std::string& fp, F build) {
	vt::Reporter& r = vt::rep();
	static const std::string* lastFp = 0;  // fast path for the (static) fingerprint strings of defect classes that fire millions of times
	static long* lastCount = 0;
	if (&fp == lastFp && *lastCount >= r.maxPerFingerprint) { ++*lastCount; ++r.violations; return; }
	std::map<std::string, long>::iterator it = r.perFingerprint.find(fp);
	if (it != r.perFingerprint.end() && it->second >= r.maxPerFingerprint) {
		++it->second; ++r.violations;
		lastFp = &fp; lastCount = &it->second;
		return;
	}
	const std::pair<std::string, std::string> mr = build();
	r.violation(fp, mr.first, mr.second);
}

static long g_breaksSeen = 0;
static void checkAsserts(const std::string& area, const std::string& ctxJson) {
	if (vt::breaks().count == g_breaksSeen) return;
	const std::string where = std::string(vt::breaks().file ? vt::breaks().file : "?") + ":" + vt::str(vt::breaks().line);
	g_breaksSeen = vt::breaks().count;
	vt::rep().violation(area + "/assert", "library assertion " + where + " fired although every visible precondition was respected",
						"{\"harness\":\"c18_bits\",\"area\":\"" + area + "\",\"context\":" + ctxJson + ",\"assert\":\"" + vt::jesc(where) + "\"}");
}

typedef std::bitset<64> Ref;  // the reference model of a bit array: a set of indices

static std::string membersJson(uint64_t m) {
	std::string s = "[";
	bool first = true;
	for (unsigned i = 0; i < 64; ++i)
		if ((m >> i) & 1) { s += (first ? "" : ",") + vt::str(i); first = false; }
	return s + "]";
}
static inline int popcnt(uint64_t m) { return (int) Ref(m).count(); }

// ---- guard pages ---------------------------------------------------------------------------------------------------

namespace guard {
static sigjmp_buf env;
static volatile sig_atomic_t armed = 0;
static long faults = 0;
static struct sigaction oldSegv, oldBus;

static void handler(int sig, siginfo_t* si, void* ctx) {
	if (armed) { armed = 0; siglongjmp(env, 1); }
	const struct sigaction& old = sig == SIGBUS ? oldBus : oldSegv;  // a genuine crash: hand over (e.g. to ASan's reporter)
	if ((old.sa_flags & SA_SIGINFO) && old.sa_sigaction) { old.sa_sigaction(sig, si, ctx); return; }
	signal(sig, SIG_DFL);
	raise(sig);
}
static void install() {
	struct sigaction sa;
	memset(&sa, 0, sizeof sa);
	sa.sa_sigaction = handler;
	sa.sa_flags = SA_SIGINFO | SA_NODEFER;
	sigemptyset(&sa.sa_mask);
	sigaction(SIGSEGV, &sa, &oldSegv);
	sigaction(SIGBUS, &sa, &oldBus);
}
// true: f() completed; false: f() touched a guard page
template <typename F>
__attribute__((noinline)) static bool run(F f) {
	armed = 1;
	if (sigsetjmp(env, 0) == 0) { f(); armed = 0; return true; }
	++faults;
	return false;
}
// [PROT_NONE page][data page][PROT_NONE page]; returns the data page
static uint8_t* page(long& pageSize) {
	pageSize = sysconf(_SC_PAGESIZE);
	uint8_t* m = (uint8_t*) mmap(0, 3 * pageSize, PROT_READ | PROT_WRITE, MAP_PRIVATE | MAP_ANONYMOUS, -1, 0);
	if (m == (uint8_t*) MAP_FAILED) { perror("mmap"); exit(3); }
	mprotect(m, pageSize, PROT_NONE);
	mprotect(m + 2 * pageSize, pageSize, PROT_NONE);
	return m + pageSize;
}
}  // namespace guard

// ====================================================================================================================
// BitArrayT<N>
// ====================================================================================================================


struct AOp { char kind; int i; int other; };
// 'S' set(Index i) | 'I' set(int i) | 's' set<i>() | 'C' clear(Index i) | 'J' clear(int i) | 'c' clear<i>()
// 'A' set() | 'Z' clear() | '&' operator&=(state other)

static std::string hex(uint64_t v) { char b[32]; snprintf(b, sizeof b, "%llx", (unsigned long long) v); return b; }

// Everything that does not need the type BitArrayT<N>: the explored state set, the reference model, classification and
// reporting (kept out of the templates to keep compile time down).
struct ArrayBase {
	struct St { uint64_t raw; uint64_t model; int parent; AOp op; };

	unsigned nBits, nUnits;
	uint64_t FULL;
	bool pairAll;
	std::vector<St> states;
	struct Key { uint64_t raw, model; bool operator==(const Key& o) const { return raw == o.raw && model == o.model; } };
	struct KeyHash { size_t operator()(const Key& k) const { return (size_t) mix(k.raw * 0x9e3779b97f4a7c15ULL ^ k.model); } };
	std::unordered_map<Key, int, KeyHash> index;

	ArrayBase(unsigned n, unsigned uc) : nBits(n), nUnits(uc), FULL(n == 64 ? ~0ULL : ((1ULL << (n & 63)) - 1)), pairAll(false) {}

	uint64_t pad(uint64_t raw) const { return raw & ~FULL; }
	std::string name() const { return "BitArrayT<" + vt::str(nBits) + ">"; }

	std::string opJson(const AOp& op) const {
		switch (op.kind) {
		case 'S': return "\"set(" + vt::str(op.i) + ")\"";
		case 'I': return "\"set(int " + vt::str(op.i) + ")\"";
		case 's': return "\"set<" + vt::str(op.i) + ">()\"";
		case 'C': return "\"clear(" + vt::str(op.i) + ")\"";
		case 'J': return "\"clear(int " + vt::str(op.i) + ")\"";
		case 'c': return "\"clear<" + vt::str(op.i) + ">()\"";
		case 'A': return "\"set()\"";
		case 'Z': return "\"clear()\"";
		case '&': return "{\"and_assign_with_array_built_by\":" + histJson(op.other) + "}";
		}
		return "\"?\"";
	}
	std::string histJson(int s) const {
		std::vector<std::string> parts;
		while (s >= 0 && states[s].parent >= 0) { parts.push_back(opJson(states[s].op)); s = states[s].parent; }
		std::string o = "[";
		for (size_t k = parts.size(); k-- > 0;) { o += parts[k]; if (k) o += ","; }
		return o + "]";
	}
	std::string replay(int s, const std::string& check, const std::string& extra = "") const {
		return "{\"harness\":\"c18_bits\",\"area\":\"bitarray\",\"N\":" + vt::str(nBits) + ",\"ops\":" + histJson(s) +
			   ",\"members\":" + membersJson(states[s].model) + ",\"check\":\"" + check + "\"" + extra + "}";
	}
	std::string bJson(int ib) const { return ",\"b_ops\":" + histJson(ib) + ",\"b_members\":" + membersJson(states[ib].model); }

	// one fingerprint for everything that is a consequence of set() filling the padding bits: the in-range bits agree
	// with the reference, padding bits are set, and an observable set-level operation gives the wrong answer
	static const std::string& fpPadding() { static const std::string s = "bitarray/set-all-padding"; return s; }
	static const std::string& fpIntersects() { static const std::string s = "bitarray/and-intersects"; return s; }
	static const std::string& fpEmpty() { static const std::string s = "bitarray/empty"; return s; }
	static const std::string& fpNeq() { static const std::string s = "bitarray/neq"; return s; }
	static const std::string& fpDisjoint() { static const std::string s = "bitarray/and-disjoint"; return s; }
	bool paddingClass(const St& a) const { return (a.raw & FULL) == a.model && pad(a.raw); }
	bool paddingClass2(const St& a, const St& b) const { return (a.raw & FULL) == a.model && (b.raw & FULL) == b.model && (pad(a.raw) | pad(b.raw)); }

	bool keep(uint64_t m) const {
		if (nBits <= 10 || (g_thorough && nBits <= 13)) return true;
		const int pc = popcnt(m);
		if (pc <= 2 || pc >= (int) nBits - 1) return true;
		if ((m & (m + 1)) == 0) return true;  // prefix interval {0..k}
		const uint64_t inv = ~m & FULL;
		return (inv & (inv + 1)) == 0;  // suffix interval {k..nBits-1}
	}
	bool isCore(uint64_t m) const { const int pc = popcnt(m); return pc <= 1 || pc >= (int) nBits - 1; }

	int add(uint64_t raw, uint64_t model, int parent, AOp op) {
		const Key k = {raw, model};
		std::unordered_map<Key, int, KeyHash>::iterator it = index.find(k);
		if (it != index.end()) return it->second;
		if (!keep(model)) return -1;
		St st = {raw, model, parent, op};
		states.push_back(st);
		index[k] = (int) states.size() - 1;
		return (int) states.size() - 1;
	}
	void noteNT(int s, int opcode, unsigned i) const {
		// non-trivial: the array has a partially used last unit and the operation touches / observes that unit
		if (nBits % 8 != 0 && (i == 255 || i / 8 == nUnits - 1)) nontrivial(ckey(1, nBits, (uint64_t) s, (uint64_t) opcode, i));
	}

	// ---- verdicts (the caller performed the library call(s) and passes what it observed)
	void judgeCtor(uint64_t members, bool empty) const {
		++g_eval; ++g_arrEvals;
		if (members != 0 || !empty)
			vt::rep().violation("bitarray/ctor", name() + ": a new array is not empty", "{\"harness\":\"c18_bits\",\"area\":\"bitarray\",\"N\":" + vt::str(nBits) + ",\"ops\":[]}");
	}
	void judgeGet(int s, unsigned i, bool g1, bool g2, bool g3, bool g4) const {
		const bool e = ((states[s].model >> i) & 1) != 0;
		g_eval += 4; g_arrEvals += 4;
		noteNT(s, 'g', i);
		if (g1 != e || g2 != e || g3 != e || g4 != e)
			violate("bitarray/get", [&]() {
				return std::make_pair(name() + ": get(" + vt::str(i) + ") via Index/int/Long/static index = " + vt::str(g1) + vt::str(g2) + vt::str(g3) + vt::str(g4) + ", expected " + vt::str(e),
									  replay(s, "get(" + vt::str(i) + ")"));
			});
	}
	void judgeUnchanged(int s, uint64_t rawAfter) const {
		if (rawAfter != states[s].raw)
			violate("bitarray/get", [&]() { return std::make_pair(name() + ": get()/empty() modified the array", replay(s, "get")); });
	}
	void judgeEmpty(int s, bool g) const {
		const St& st = states[s];
		const bool e = Ref(st.model).none();
		++g_eval; ++g_arrEvals;
		noteNT(s, 'e', 255);
		if (g != e)
			violate(paddingClass(st) ? fpPadding() : fpEmpty(), [&]() {
				return std::make_pair(name() + ": empty()=" + vt::str(g) + " but the array has " + vt::str(popcnt(st.model)) + " member(s) " + membersJson(st.model) + " (storage 0x" + hex(st.raw) + ")",
									  replay(s, "empty()", ",\"expected\":" + std::string(e ? "true" : "false")));
			});
	}
	// returns the reference result; ok=false when the library disagrees
	uint64_t expectedAfter(int s, const AOp& op) const {
		Ref m(states[s].model);
		switch (op.kind) {
		case 'S': case 'I': case 's': m.set((size_t) op.i); break;
		case 'C': case 'J': case 'c': m.reset((size_t) op.i); break;
		case 'A': return FULL;
		case 'Z': return 0;
		}
		return m.to_ullong();
	}
	void judgeMutate(int s, const AOp& op, uint64_t got, uint64_t rawAfter, bool emptyAfter) {
		const uint64_t expected = expectedAfter(s, op);
		const bool whole = op.kind == 'A' || op.kind == 'Z';
		const char* clause = whole ? (op.kind == 'A' ? "set-all" : "clear-all") : (op.kind == 'S' || op.kind == 'I' || op.kind == 's') ? "set-index" : "clear-index";
		++g_eval; ++g_arrEvals;
		noteNT(s, op.kind, whole ? 255u : (unsigned) op.i);
		if (got != expected) {
			violate(std::string("bitarray/") + clause, [&]() {
				const std::string o = opJson(op);
				return std::make_pair(name() + ": after " + o + " members are " + membersJson(got) + ", expected " + membersJson(expected),
									  replay(s, o.substr(1, o.size() - 2), ",\"expected\":" + membersJson(expected) + ",\"got\":" + membersJson(got)));
			});
			return;
		}
		if (op.kind == 'Z' && !emptyAfter) {
			violate("bitarray/clear-all", [&]() { return std::make_pair(name() + ": not empty() right after clear()", replay(s, "clear(); empty()")); });
			return;
		}
		add(rawAfter, expected, s, op);
	}
	void judgePair(int ia, int ib, bool neq, bool andBool, uint64_t andAssignMembers, uint64_t andAssignRaw, uint64_t bRawAfter) {
		const St A = states[ia], B = states[ib];
		const uint64_t inter = (Ref(A.model) & Ref(B.model)).to_ullong();
		if (nBits % 8 != 0 && popcnt(A.model ^ B.model) <= 1) nontrivial(ckey(2, nBits, (uint64_t) ia, (uint64_t) ib));
		g_eval += 3; g_pairEvals += 3;
		const bool eNeq = A.model != B.model;
		if (neq != eNeq)
			violate(paddingClass2(A, B) ? fpPadding() : fpNeq(), [&]() {
				return std::make_pair(name() + ": (a != b)=" + vt::str(neq) + " for a=" + membersJson(A.model) + " (storage 0x" + hex(A.raw) + ") b=" + membersJson(B.model) + " (storage 0x" + hex(B.raw) + ")",
									  replay(ia, "a != b", bJson(ib) + ",\"expected\":" + (eNeq ? "true" : "false")));
			});
		if (!inter && andBool)
			violate(paddingClass2(A, B) ? fpPadding() : fpDisjoint(), [&]() {
				return std::make_pair(name() + ": (a & b) is true for disjoint a=" + membersJson(A.model) + " b=" + membersJson(B.model), replay(ia, "a & b", bJson(ib) + ",\"expected\":false"));
			});
		// bool operator& : the statement's "and" is the intersection (operator&=, checked below). What a *boolean* '&'
		// should answer for intersecting sets is not stated (the library answers "every storage byte has a common bit"),
		// so "intersecting => true" is only counted as an observation, never reported (see DESIGN.md, C18 triage).
		if (inter && !andBool) ++g_andIntersectsObserved;
		const bool bSame = bRawAfter == B.raw;
		if (andAssignMembers != inter || !bSame) {
			violate("bitarray/and-assign", [&]() {
				return std::make_pair(name() + ": a &= b gives " + membersJson(andAssignMembers) + (bSame ? "" : " and modifies b") + ", expected " + membersJson(inter),
									  replay(ia, "a &= b", bJson(ib) + ",\"expected\":" + membersJson(inter)));
			});
		} else {
			const AOp o = {'&', 0, ib};
			add(andAssignRaw, inter, ia, o);
		}
	}
	void finish() {
		g_arrStates += (long) states.size();
		checkAsserts("bitarray", "{\"N\":" + vt::str(nBits) + "}");
		if (g_samples.size() < 2 && nBits % 8 != 0 && nBits >= 9 && states.size() > 6) {
			const int s = (int) states.size() / 2;
			g_samples.push_back("{\"area\":\"bitarray\",\"N\":" + vt::str(nBits) + ",\"ops\":" + histJson(s) + ",\"members\":" + membersJson(states[s].model) + ",\"storage\":\"0x" + hex(states[s].raw) +
								"\",\"checked\":\"get(i) all i and forms, empty(), set/clear(i) all i and forms, set(), clear(), then !=, &, &= against every other state\"}");
		}
		printf("{\"type\":\"sub\",\"object\":\"BitArrayT<%u>\",\"states\":%ld,\"pairs\":\"%s\"}\n", nBits, (long) states.size(), pairAll ? "all" : "core x all");
	}
};

template <unsigned N>
struct StaticTab {
	typedef BitArrayT<N> BA;
	bool (*get[N])(const BA&);
	void (*set[N])(BA&);
	void (*clr[N])(BA&);
};
template <unsigned N, Short I> static bool sGet(const BitArrayT<N>& a) { return a.template get<I>(); }
template <unsigned N, Short I> static void sSet(BitArrayT<N>& a) { a.template set<I>(); }
template <unsigned N, Short I> static void sClr(BitArrayT<N>& a) { a.template clear<I>(); }
template <unsigned N, unsigned I, bool End = (I >= N)>
struct FillStatic {
	static void go(StaticTab<N>& t) {
		t.get[I] = &sGet<N, (Short) I>;
		t.set[I] = &sSet<N, (Short) I>;
		t.clr[I] = &sClr<N, (Short) I>;
		FillStatic<N, I + 1>::go(t);
	}
};
template <unsigned N, unsigned I>
struct FillStatic<N, I, true> { static void go(StaticTab<N>&) {} };

// the part that touches the real BitArrayT<N>
template <unsigned N>
struct ArrayCheck : ArrayBase {
	typedef BitArrayT<N> BA;
	typedef typename BA::Index Index;

	BA* hA;
	BA* hB;
	StaticTab<N> tab;

	static ArrayCheck& inst() { static ArrayCheck c; return c; }

	ArrayCheck() : ArrayBase(N, BA::UNIT_COUNT) {
		hA = new (std::malloc(sizeof(BA))) BA;  // exactly-sized heap blocks: ASan sees any access outside the object
		hB = new (std::malloc(sizeof(BA))) BA;
		FillStatic<N, 0>::go(tab);
	}
	static uint64_t rawOf(const BA& a) {
		uint64_t r = 0;
		for (unsigned k = 0; k < BA::UNIT_COUNT; ++k) r |= (uint64_t) a._storage[k] << (8 * k);
		return r;
	}
	static void restore(BA& a, uint64_t raw) {
		for (unsigned k = 0; k < BA::UNIT_COUNT; ++k) a._storage[k] = (uint8_t) (raw >> (8 * k));
	}
	// the observation the property talks about: which indices < N are members
	static uint64_t obs(const BA& a) {
		uint64_t r = 0;
		for (unsigned j = 0; j < N; ++j)
			if (a.get((Index) j)) r |= 1ULL << j;
		return r;
	}
	void mutate(int s, AOp op) {
		BA& a = *hA;
		restore(a, states[s].raw);
		switch (op.kind) {
		case 'S': a.set((Index) op.i); break;
		case 'I': a.set((int) op.i); break;
		case 's': tab.set[op.i](a); break;
		case 'C': a.clear((Index) op.i); break;
		case 'J': a.clear((int) op.i); break;
		case 'c': tab.clr[op.i](a); break;
		case 'A': a.set(); break;
		case 'Z': a.clear(); break;
		}
		judgeMutate(s, op, obs(a), rawOf(a), a.empty());
	}
	void unary(int s) {
		BA& a = *hA;
		restore(a, states[s].raw);
		for (unsigned i = 0; i < N; ++i) judgeGet(s, i, a.get((Index) i), a.get((int) i), a.get((Long) i), tab.get[i](a));
		judgeEmpty(s, a.empty());
		judgeUnchanged(s, rawOf(a));
		static const char kinds[6] = {'S', 'I', 's', 'C', 'J', 'c'};
		for (unsigned i = 0; i < N; ++i)
			for (int k = 0; k < 6; ++k) { const AOp o = {kinds[k], (int) i, 0}; mutate(s, o); }
		const AOp oa = {'A', 0, 0}, oz = {'Z', 0, 0};
		mutate(s, oa);
		mutate(s, oz);
	}
	void pair(int ia, int ib) {
		BA& a = *hA;
		BA& b = *hB;
		restore(a, states[ia].raw);
		restore(b, states[ib].raw);
		const bool neq = a != b;
		const bool andBool = a & b;
		a &= b;
		judgePair(ia, ib, neq, andBool, obs(a), rawOf(a), rawOf(b));
	}
	void run() {
		pairAll = N <= 10 || g_thorough;
		BA* fresh = new (hA) BA;
		judgeCtor(obs(*fresh), fresh->empty());
		const AOp none = {0, 0, 0};
		St s0 = {rawOf(*fresh), 0, -1, none};
		states.push_back(s0);
		const Key k0 = {s0.raw, 0}; index[k0] = 0;
		for (size_t done = 0; done < states.size(); ++done) {
			const int k = (int) done;
			unary(k);
			const bool coreK = isCore(states[k].model);
			for (int j = 0; j <= k; ++j) {
				if (!pairAll && !coreK && !isCore(states[j].model)) continue;
				pair(k, j);
				if (j != k) pair(j, k);
			}
		}
		finish();
	}
};
// ====================================================================================================================
// Bits / CBits views
// ====================================================================================================================

enum VOp { V_BOOL = 0, V_CBOOL, V_GET, V_CGET, V_SET, V_CLR, V_CLRALL, V_COUNT };
static const char* const V_NAME[V_COUNT] = {"bool", "bool", "get", "get", "set", "clear", "clear-all"};
static const char* const V_CLASS[V_COUNT] = {"Bits", "CBits", "Bits", "CBits", "Bits", "Bits", "Bits"};
static const char* const V_CALL[V_COUNT] = {"operator bool()", "operator bool()", "get(i)", "get(i)", "set(i)", "clear(i)", "clear()"};
enum VForm { F_DD = 0, F_SD, F_DS, F_SS, F_COUNT };
static const char* const F_NAME[F_COUNT] = {"bits(Units{u,w}) + dynamic index", "bits<U,W>() + dynamic index", "bits(Units{u,w}) + static index <I>", "bits<U,W>() + static index <I>"};

#ifdef VT_CBITS_STATIC_GET
static const bool CBITS_STATIC_GET = true;
#else
static const bool CBITS_STATIC_GET = false;  // CBits::get<I>() cannot be instantiated (see checks/c18.py probe)
#endif

// dynamic view, dynamic index
template <unsigned N>
static bool ddOp(BitArrayT<N>& a, Short u, Short w, int op, unsigned i) {
	typedef BitArrayT<N> BA;
	typedef typename BA::Index Index;
	const BA& ca = a;
	const Units units{u, w};
	switch (op) {
	case V_BOOL: { typename BA::Bits v = a.bits(units); return static_cast<bool>(v); }
	case V_CBOOL: { typename BA::CBits v = ca.cbits(units); return static_cast<bool>(v); }
	case V_GET: { const typename BA::Bits v = a.bits(units); return v.get((Index) i); }
	case V_CGET: { const typename BA::CBits v = ca.cbits(units); return v.get((Index) i); }
	case V_SET: { typename BA::Bits v = a.bits(units); v.set((Index) i); return false; }
	case V_CLR: { typename BA::Bits v = a.bits(units); v.clear((Index) i); return false; }
	case V_CLRALL: { typename BA::Bits v = a.bits(units); v.clear(); return false; }
	}
	return false;
}
// static view, dynamic index
template <unsigned N, Short U, Short W>
static bool sdOp(BitArrayT<N>& a, int op, unsigned i) {
	typedef BitArrayT<N> BA;
	typedef typename BA::Index Index;
	const BA& ca = a;
	switch (op) {
	case V_BOOL: { typename BA::Bits v = a.template bits<U, W>(); return static_cast<bool>(v); }
	case V_CBOOL: { typename BA::CBits v = ca.template cbits<U, W>(); return static_cast<bool>(v); }
	case V_GET: { const typename BA::Bits v = a.template bits<U, W>(); return v.get((Index) i); }
	case V_CGET: { const typename BA::CBits v = ca.template cbits<U, W>(); return v.get((Index) i); }
	case V_SET: { typename BA::Bits v = a.template bits<U, W>(); v.set((Index) i); return false; }
	case V_CLR: { typename BA::Bits v = a.template bits<U, W>(); v.clear((Index) i); return false; }
	case V_CLRALL: { typename BA::Bits v = a.template bits<U, W>(); v.clear(); return false; }
	}
	return false;
}
// dynamic view, static index
template <unsigned N, Short I>
static bool dsOp(BitArrayT<N>& a, Short u, Short w, int op) {
	typedef BitArrayT<N> BA;
	const BA& ca = a;
	const Units units{u, w};
	(void) ca;
	switch (op) {
	case V_GET: { const typename BA::Bits v = a.bits(units); return v.template get<I>(); }
#ifdef VT_CBITS_STATIC_GET
	case V_CGET: { const typename BA::CBits v = ca.cbits(units); return v.template get<I>(); }
#endif
	case V_SET: { typename BA::Bits v = a.bits(units); v.template set<I>(); return false; }
	case V_CLR: { typename BA::Bits v = a.bits(units); v.template clear<I>(); return false; }
	}
	return false;
}
// static view, static index
template <unsigned N, Short U, Short W, Short I>
static bool ssOp(BitArrayT<N>& a, int op) {
	typedef BitArrayT<N> BA;
	const BA& ca = a;
	(void) ca;
	switch (op) {
	case V_GET: { const typename BA::Bits v = a.template bits<U, W>(); return v.template get<I>(); }
#ifdef VT_CBITS_STATIC_GET
	case V_CGET: { const typename BA::CBits v = ca.template cbits<U, W>(); return v.template get<I>(); }
#endif
	case V_SET: { typename BA::Bits v = a.template bits<U, W>(); v.template set<I>(); return false; }
	case V_CLR: { typename BA::Bits v = a.template bits<U, W>(); v.template clear<I>(); return false; }
	}
	return false;
}

// which static views bits<U,W>() are instantiated (all of them up to N = 33; for N = 64 the widths around unit
// boundaries and the views that end at the array's end), and which of those also get every static index <I>
constexpr bool sdIncluded(unsigned N, unsigned U, unsigned W) {
	return N <= 33 || W <= 2 || W % 8 == 0 || W % 8 == 1 || W % 8 == 7 || 8 * U + W == N;
}
constexpr bool ssIncluded(unsigned N, unsigned U, unsigned W) {
	return N <= 17 || W <= 2 || W % 8 == 0 || 8 * U + W == N;
}

struct PState { uint64_t raw; uint64_t model; int hist; std::string ops; bool mutate; };

struct ViewBase {
	unsigned nBits, nUnits;
	size_t objectSize;
	uint64_t FULL;
	const ArrayBase* ac;
	long localCases;

	ViewBase(unsigned n, unsigned uc, size_t sz, const ArrayBase* a) : nBits(n), nUnits(uc), objectSize(sz), FULL(n == 64 ? ~0ULL : ((1ULL << (n & 63)) - 1)), ac(a), localCases(0) {}

	static const char* placeName(int p) { return p == 0 ? "object ends at a guard page" : p == 1 ? "object starts after a guard page" : "exact malloc block"; }
	static bool indexedOp(int op) { return op == V_GET || op == V_CGET || op == V_SET || op == V_CLR; }

	std::string replay(int form, unsigned u, unsigned w, int op, unsigned i, const PState& P, int pl) const {
		return "{\"harness\":\"c18_bits\",\"area\":\"view\",\"N\":" + vt::str(nBits) + ",\"unit\":" + vt::str(u) + ",\"width\":" + vt::str(w) + ",\"form\":\"" + F_NAME[form] +
			   "\",\"class\":\"" + V_CLASS[op] + "\",\"op\":\"" + V_CALL[op] + "\",\"index\":" + vt::str(i) + ",\"placement\":\"" + placeName(pl) + "\",\"parent_members\":" +
			   membersJson(P.model) + ",\"parent_ops\":" + (P.hist >= 0 ? ac->histJson(P.hist) : P.ops) + "}";
	}
	std::string what(int form, unsigned u, unsigned w, int op, unsigned i) const {
		return "BitArrayT<" + vt::str(nBits) + ">::" + V_CLASS[op] + " view (unit " + vt::str(u) + ", width " + vt::str(w) + ") " + V_CALL[op] + (indexedOp(op) ? " i=" + vt::str(i) : "") + " [" + F_NAME[form] + "]";
	}
	void fault(int form, int pl, unsigned u, unsigned w, int op, unsigned i, const PState& P) const {
		const bool write = op == V_SET || op == V_CLR || op == V_CLRALL;
		const std::string fp = std::string("view/") + V_NAME[op] + (pl == 0 ? (write ? "-overrun" : "-overread") : (write ? "-underrun" : "-underread"));
		violate(fp, [&]() {
			return std::make_pair(what(form, u, w, op, i) + " accesses memory " + (pl == 0 ? "past the end" : "before the start") + " of the " + vt::str(objectSize) +
									  "-byte parent object (" + placeName(pl) + "; parent members " + membersJson(P.model) + ")",
								  replay(form, u, w, op, i, P, pl));
		});
	}
	static uint64_t rangeMask(unsigned u, unsigned w) {
		uint64_t R = 0;
		for (unsigned i = 0; i < w; ++i) R |= 1ULL << (8 * u + i);
		return R;
	}
	void judgeRead(int form, int pl, unsigned u, unsigned w, int op, unsigned i, const PState& P, bool got) const {
		const bool expected = indexedOp(op) ? ((P.model >> (8 * u + i)) & 1) != 0 : (P.model & rangeMask(u, w)) != 0;
		++g_eval; ++g_viewEvals;
		if (got != expected)
			violate(std::string("view/") + V_NAME[op], [&]() {
				return std::make_pair(what(form, u, w, op, i) + " = " + vt::str(got) + ", expected " + vt::str(expected) + " (parent members " + membersJson(P.model) + ")", replay(form, u, w, op, i, P, pl));
			});
	}
	void judgeReadKeeps(int form, int pl, unsigned u, unsigned w, const PState& P, uint64_t rawAfter) const {
		if (rawAfter != P.raw)
			violate("view/read-modifies", [&]() { return std::make_pair(what(form, u, w, V_GET, 0) + ": reading through a view modified the parent", replay(form, u, w, V_GET, 0, P, pl)); });
	}
	void judgeWrite(int form, int pl, unsigned u, unsigned w, int op, unsigned i, const PState& P, uint64_t got) const {
		const uint64_t R = rangeMask(u, w), bit = 1ULL << (8 * u + i);
		const uint64_t expected = op == V_SET ? (P.model | bit) : op == V_CLR ? (P.model & ~bit) : (P.model & ~R);
		++g_eval; ++g_viewEvals;
		if (got == expected) return;
		std::string fp = std::string("view/") + V_NAME[op];
		if (op == V_CLRALL && (got & R) == 0 && (got & ~R) != (P.model & ~R)) fp = "view/clear-all-outside-range";
		violate(fp, [&]() {
			return std::make_pair(what(form, u, w, op, i) + " leaves parent members " + membersJson(got) + ", expected " + membersJson(expected) + " (before: " + membersJson(P.model) +
									  "; the view addresses indices " + vt::str(8 * u) + ".." + vt::str(8 * u + w - 1) + ")",
								  replay(form, u, w, op, i, P, pl));
		});
	}
	// parent contents taken from the array exploration
	void parentStates(std::vector<PState>& ps) const {
		const bool allStates = nBits <= 10 || g_thorough;
		const bool mutateAll = nBits <= 10 || (g_thorough && nBits <= 17);
		for (size_t s = 0; s < ac->states.size(); ++s) {
			const uint64_t m = ac->states[s].model;
			if (!allStates && !ac->isCore(m)) continue;
			PState p = {ac->states[s].raw, m, (int) s, "", mutateAll || m == 0 || m == FULL};
			ps.push_back(p);
		}
	}
	void finishView(unsigned u, unsigned w, const std::vector<PState>& ps) const {
		checkAsserts("view", "{\"N\":" + vt::str(nBits) + ",\"unit\":" + vt::str(u) + ",\"width\":" + vt::str(w) + "}");
		if (nBits == 16 && u == 1 && w == 8 && g_samples.size() < 4) {
			const PState& P = ps[ps.size() - 1];
			g_samples.push_back("{\"area\":\"view\",\"N\":16,\"unit\":1,\"width\":8,\"parent_members\":" + membersJson(P.model) +
								",\"checked\":\"operator bool (Bits, CBits), get(i)/set(i)/clear(i) for i<8 in 4 forms, clear(), on 3 placements of the parent\"}");
		}
	}
};

template <unsigned N>
struct ViewTab {
	typedef BitArrayT<N> BA;
	typedef bool (*SdFn)(BA&, int, unsigned);
	typedef bool (*SsFn)(BA&, int);
	typedef bool (*DsFn)(BA&, Short, Short, int);
	enum { UC = BA::UNIT_COUNT };
	std::vector<SdFn> sd;  // [u * (N + 1) + w]
	std::vector<SsFn> ss;  // [(u * (N + 1) + w) * N + i]
	DsFn ds[N];
	ViewTab() : sd(UC * (N + 1), (SdFn) 0), ss(UC * (N + 1) * N, (SsFn) 0) {}
	static size_t uw(unsigned u, unsigned w) { return u * (N + 1) + w; }
};

template <unsigned N, unsigned I, bool End = (I >= N)>
struct FillDS { static void go(ViewTab<N>& t) { t.ds[I] = &dsOp<N, (Short) I>; FillDS<N, I + 1>::go(t); } };
template <unsigned N, unsigned I>
struct FillDS<N, I, true> { static void go(ViewTab<N>&) {} };

template <unsigned N, unsigned U, unsigned W, unsigned I, bool End = (I >= W)>
struct FillSS {
	static void go(ViewTab<N>& t) {
		t.ss[ViewTab<N>::uw(U, W) * N + I] = &ssOp<N, (Short) U, (Short) W, (Short) I>;
		FillSS<N, U, W, I + 1>::go(t);
	}
};
template <unsigned N, unsigned U, unsigned W, unsigned I>
struct FillSS<N, U, W, I, true> { static void go(ViewTab<N>&) {} };

template <unsigned N, unsigned U, unsigned W, bool Inc = sdIncluded(N, U, W)>
struct FillSD {
	static void go(ViewTab<N>& t) {
		t.sd[ViewTab<N>::uw(U, W)] = &sdOp<N, (Short) U, (Short) W>;
		FillSS<N, U, W, 0, !ssIncluded(N, U, W)>::go(t);
	}
};
template <unsigned N, unsigned U, unsigned W>
struct FillSD<N, U, W, false> { static void go(ViewTab<N>&) {} };

template <unsigned N, unsigned U, unsigned W, bool End = (8 * U + W > N)>
struct FillW { static void go(ViewTab<N>& t) { FillSD<N, U, W>::go(t); FillW<N, U, W + 1>::go(t); } };
template <unsigned N, unsigned U, unsigned W>
struct FillW<N, U, W, true> { static void go(ViewTab<N>&) {} };

template <unsigned N, unsigned U, bool End = (8 * U + 1 > N)>
struct FillU { static void go(ViewTab<N>& t) { FillW<N, U, 1>::go(t); FillU<N, U + 1>::go(t); } };
template <unsigned N, unsigned U>
struct FillU<N, U, true> { static void go(ViewTab<N>&) {} };

template <unsigned N>
struct ViewCheck : ViewBase {
	typedef BitArrayT<N> BA;
	typedef ArrayCheck<N> AC;
	typedef typename BA::Index Index;

	BA* place[3];  // 0: ends at a PROT_NONE page | 1: starts right after a PROT_NONE page | 2: exactly-sized malloc block
	ViewTab<N> tab;

	ViewCheck() : ViewBase(N, BA::UNIT_COUNT, sizeof(BA), &AC::inst()) {
		long ps = 0;
		uint8_t* data = guard::page(ps);
		place[0] = new (data + ps - sizeof(BA)) BA;
		place[1] = new (data) BA;
		place[2] = new (std::malloc(sizeof(BA))) BA;
		FillDS<N, 0>::go(tab);
		FillU<N, 0>::go(tab);
	}
	static ViewCheck& inst() { static ViewCheck c; return c; }

	bool available(int form, unsigned u, unsigned w, int op, unsigned i) const {
		switch (form) {
		case F_DD: return true;
		case F_SD: return tab.sd[ViewTab<N>::uw(u, w)] != 0;
		case F_DS: return indexedOp(op) && (op != V_CGET || CBITS_STATIC_GET);
		case F_SS: return indexedOp(op) && (op != V_CGET || CBITS_STATIC_GET) && tab.ss[ViewTab<N>::uw(u, w) * N + i] != 0;
		}
		return false;
	}
	bool call(int form, BA& a, unsigned u, unsigned w, int op, unsigned i) const {
		switch (form) {
		case F_DD: return ddOp<N>(a, (Short) u, (Short) w, op, i);
		case F_SD: return tab.sd[ViewTab<N>::uw(u, w)](a, op, i);
		case F_DS: return tab.ds[i](a, (Short) u, (Short) w, op);
		case F_SS: return tab.ss[ViewTab<N>::uw(u, w) * N + i](a, op);
		}
		return false;
	}
	// false when the call touched a guard page
	bool exec(int form, int pl, unsigned u, unsigned w, int op, unsigned i, bool& out) const {
		BA& a = *place[pl];
		if (pl == 2) { out = call(form, a, u, w, op, i); return true; }
		const ViewCheck* self = this;
		bool* o = &out;
		return guard::run([=, &a]() { *o = self->call(form, a, u, w, op, i); });
	}

	void testView(unsigned u, unsigned w) {
		const uint64_t R = rangeMask(u, w);
		std::vector<PState> ps;
		parentStates(ps);
		for (int inside = 0; inside < 2; ++inside) {  // exactly the range / exactly everything but the range, built with parent ops
			BA* a = new (place[2]) BA;
			std::string ops = "[";
			uint64_t m = 0;
			for (unsigned j = 0; j < N; ++j)
				if ((((R >> j) & 1) != 0) == (inside != 0)) { a->set((Index) j); m |= 1ULL << j; ops += std::string(ops.size() > 1 ? "," : "") + "\"set(" + vt::str(j) + ")\""; }
			PState p = {AC::rawOf(*a), m, -1, ops + "]", true};
			ps.push_back(p);
		}
		const bool ntView = w % 8 == 0 || 8 * u + w == 8 * (unsigned) BA::UNIT_COUNT || w > 8;
		for (int form = 0; form < F_COUNT; ++form) {
			if (ntView)
				for (int op = 0; op < V_COUNT; ++op)
					for (unsigned i = 0; i < (indexedOp(op) ? w : 1u); ++i)
						if ((indexedOp(op) || form < F_DS) && available(form, u, w, op, i)) nontrivial(ckey(3, N, u, w, (uint64_t) form, (uint64_t) op, i));
			for (size_t pi = 0; pi < ps.size(); ++pi) {
				const PState& P = ps[pi];
				++localCases;
				// ---- reads
				bool faulted[V_COUNT][64];
				memset(faulted, 0, sizeof faulted);
				for (int pl = 0; pl < 3; ++pl) {
					BA& a = *place[pl];
					AC::restore(a, P.raw);
					for (int op = V_BOOL; op <= V_CGET; ++op) {
						if (!indexedOp(op) && form >= F_DS) continue;  // no index involved: covered by F_DD / F_SD
						for (unsigned i = 0; i < (indexedOp(op) ? w : 1u); ++i) {
							if (!available(form, u, w, op, i)) continue;
							if (pl == 2 && faulted[op][i]) { ++g_heapSkipped; continue; }
							bool got = false;
							if (!exec(form, pl, u, w, op, i, got)) { faulted[op][i] = true; fault(form, pl, u, w, op, i, P); continue; }
							judgeRead(form, pl, u, w, op, i, P, got);
						}
					}
					judgeReadKeeps(form, pl, u, w, P, AC::rawOf(a));
				}
				if (!P.mutate) continue;
				// ---- writes
				for (int op = V_SET; op <= V_CLRALL; ++op) {
					if (!indexedOp(op) && form >= F_DS) continue;
					for (unsigned i = 0; i < (indexedOp(op) ? w : 1u); ++i) {
						if (!available(form, u, w, op, i)) continue;
						bool f = false;
						for (int pl = 0; pl < 3; ++pl) {
							if (pl == 2 && f) { ++g_heapSkipped; continue; }
							BA& a = *place[pl];
							AC::restore(a, P.raw);
							bool dummy = false;
							if (!exec(form, pl, u, w, op, i, dummy)) { f = true; fault(form, pl, u, w, op, i, P); continue; }
							judgeWrite(form, pl, u, w, op, i, P, AC::obs(a));
						}
					}
				}
			}
		}
		finishView(u, w, ps);
	}

	void run() {
		long views = 0;
		for (unsigned u = 0; 8 * u < N; ++u)
			for (unsigned w = 1; 8 * u + w <= N; ++w) { testView(u, w); ++views; }
		g_viewCases += localCases;
		printf("{\"type\":\"sub\",\"object\":\"BitArrayT<%u> views\",\"views\":%ld,\"cases\":%ld}\n", N, views, localCases);
	}
};

template <unsigned N>
static void runN() {
	ArrayCheck<N>::inst().run();
	ViewCheck<N>::inst().run();
}

// ====================================================================================================================
// StreamBufferT / BitWriteStreamT / BitReadStreamT
// ====================================================================================================================

#if VT_PART == 0 || VT_PART == 5

struct Field { int w; uint32_t v; };
struct SCase { const char* mode; int start; int n; Field f[6]; };

static std::string fieldsJson(const SCase& c) {
	std::string s = "[";
	for (int k = 0; k < c.n; ++k) s += std::string(k ? "," : "") + "[" + vt::str(c.f[k].w) + "," + vt::str(c.f[k].v) + "]";
	return s + "]";
}

static const unsigned MAX_CAP = 112;
static const unsigned MAX_BYTES = MAX_CAP / 8;

// what the templated part observed while executing one case on the real stream classes
struct Trace {
	unsigned cap, bytes;
	long wCursor0;            // cursor of a new writer
	long wCursor[6];          // cursor after each write
	uint8_t snap[MAX_BYTES];  // buffer right after constructing the writer
	uint8_t after[MAX_BYTES]; // buffer after the last write
	uint32_t rValue[6];
	long rCursor[6];
	uint32_t lastValue;       // a second reader constructed directly at the last field
	long lastCursor;
	uint8_t final[MAX_BYTES]; // buffer after reading
};

template <Long Cap, Short W, bool Fits = (W <= Cap)>
struct WR {
	static void write(BitWriteStreamT<Cap>& s, uint32_t v) { s.template write<W>((UBitWidth<W>) v); }
	static uint32_t read(BitReadStreamT<Cap>& s) { return (uint32_t) s.template read<W>(); }
};
template <Long Cap, Short W>
struct WR<Cap, W, false> {
	static void write(BitWriteStreamT<Cap>&, uint32_t) { std::abort(); }
	static uint32_t read(BitReadStreamT<Cap>&) { std::abort(); }
};

#define VT_WIDTHS(X) X(1) X(2) X(3) X(4) X(5) X(6) X(7) X(8) X(9) X(10) X(11) X(12) X(13) X(14) X(15) X(16) X(17) X(18) X(19) X(20) X(21) X(22) X(23) X(24) X(25) X(26) X(27) X(28) X(29) X(30) X(31) X(32)

template <Long Cap>
struct StreamRt {
	typedef StreamBufferT<Cap> Buf;
	typedef BitWriteStreamT<Cap> WS;
	typedef BitReadStreamT<Cap> RS;
	enum { BYTES = Buf::BYTE_COUNT };

	__attribute__((noinline)) static void write(WS& s, int w, uint32_t v) {
		switch (w) {
#define X(W) case W: WR<Cap, W>::write(s, v); break;
			VT_WIDTHS(X)
#undef X
		}
	}
	__attribute__((noinline)) static uint32_t read(RS& s, int w) {
		switch (w) {
#define X(W) case W: return WR<Cap, W>::read(s);
			VT_WIDTHS(X)
#undef X
		}
		return 0;
	}
	static void exec(const SCase& c, Trace& t) {
		static Buf* heap = new (std::malloc(sizeof(Buf))) Buf;  // exactly-sized heap block
		Buf& b = *heap;
		uint8_t* d = b.data();
		t.cap = Cap; t.bytes = BYTES;
		std::memset(d, 0xA5, BYTES);
		WS ws(b, (Long) c.start);
		t.wCursor0 = (long) ws.cursor();
		std::memcpy(t.snap, d, BYTES);
		for (int k = 0; k < c.n; ++k) { write(ws, c.f[k].w, c.f[k].v); t.wCursor[k] = (long) ws.cursor(); }
		std::memcpy(t.after, d, BYTES);
		RS rs(b, (Long) c.start);
		long lastStart = c.start;
		for (int k = 0; k < c.n; ++k) { lastStart = (long) rs.cursor(); t.rValue[k] = read(rs, c.f[k].w); t.rCursor[k] = (long) rs.cursor(); }
		long at = c.start;
		for (int k = 0; k + 1 < c.n; ++k) at += c.f[k].w;
		(void) lastStart;
		RS rs2(b, (Long) at);  // a reader positioned directly at the last field
		t.lastValue = read(rs2, c.f[c.n - 1].w);
		t.lastCursor = (long) rs2.cursor();
		std::memcpy(t.final, d, BYTES);
	}
};

static inline bool bitOf(const uint8_t* d, long bit) { return (d[bit >> 3] >> (bit & 7)) & 1; }

static void streamFail(const char* clause, const std::string& msg, const SCase& c, unsigned cap) {
	violate(std::string("stream/") + clause, [&]() {
		return std::make_pair("stream<" + vt::str(cap) + "> " + c.mode + ", start cursor " + vt::str(c.start) + ", fields [width,value] " + fieldsJson(c) + ": " + msg,
							  "{\"harness\":\"c18_bits\",\"area\":\"stream\",\"capacity_bits\":" + vt::str(cap) + ",\"mode\":\"" + c.mode + "\",\"start_cursor\":" + vt::str(c.start) +
								  ",\"fields_width_value\":" + fieldsJson(c) + "}");
	});
}

static void judgeStream(const SCase& c, const Trace& t) {
	++g_streamTrips;
	long cur = c.start;
	++g_eval; ++g_streamEvals;
	if (t.wCursor0 != cur) streamFail("write-cursor", "new writer reports cursor " + vt::str(t.wCursor0), c, t.cap);
	uint8_t ref[MAX_BYTES];  // independent reference bit vector (LSB-first layout; only its outside-the-fields part is an oracle)
	std::memcpy(ref, t.snap, t.bytes);
	for (int k = 0; k < c.n; ++k) {
		for (int b = 0; b < c.f[k].w; ++b) {
			const long bit = cur + b;
			const uint8_t m = (uint8_t) (1u << (bit & 7));
			if ((c.f[k].v >> b) & 1) ref[bit >> 3] |= m; else ref[bit >> 3] &= (uint8_t) ~m;
		}
		cur += c.f[k].w;
		++g_eval; ++g_streamEvals;
		if (t.wCursor[k] != cur) streamFail("write-cursor", "after writing field " + vt::str(k) + " the cursor is " + vt::str(t.wCursor[k]) + ", expected " + vt::str(cur), c, t.cap);
	}
	const long end = cur;
	++g_eval; ++g_streamEvals;
	if (std::memcmp(t.after, ref, t.bytes) != 0) {
		bool inside = false;
		for (long bit = 0; bit < 8L * t.bytes; ++bit) {
			if (bit >= c.start && bit < end) { inside = inside || bitOf(t.after, bit) != bitOf(ref, bit); continue; }
			if (bitOf(t.after, bit) != bitOf(t.snap, bit)) {
				streamFail(bit < c.start ? "write-before" : "write-beyond", "bit " + vt::str(bit) + " outside the written range [" + vt::str(c.start) + "," + vt::str(end) + ") was modified", c, t.cap);
				break;
			}
		}
		if (inside) ++g_layoutMismatch;  // the layout inside the fields is not promised: informational only
	}
	cur = c.start;
	for (int k = 0; k < c.n; ++k) {
		cur += c.f[k].w;
		g_eval += 2; g_streamEvals += 2;
		if (t.rValue[k] != c.f[k].v) streamFail("roundtrip", "field " + vt::str(k) + " (width " + vt::str(c.f[k].w) + ") read back as " + vt::str(t.rValue[k]) + ", written " + vt::str(c.f[k].v), c, t.cap);
		if (t.rCursor[k] != cur) streamFail("read-cursor", "after reading field " + vt::str(k) + " the cursor is " + vt::str(t.rCursor[k]) + ", expected " + vt::str(cur), c, t.cap);
	}
	++g_eval; ++g_streamEvals;
	if (t.lastValue != c.f[c.n - 1].v || t.lastCursor != end)
		streamFail("roundtrip", "a reader constructed at the last field's cursor reads " + vt::str(t.lastValue) + " and ends at cursor " + vt::str(t.lastCursor), c, t.cap);
	if (std::memcmp(t.final, t.after, t.bytes) != 0) streamFail("read-modifies", "reading modified the buffer", c, t.cap);
}

typedef void (*ExecFn)(const SCase&, Trace&);
static ExecFn g_exec[MAX_CAP + 1];
// capacities: every multiple of 8 (byte-exact heap block for any total) plus odd sizes for the "exact-fill" cases
constexpr bool capIncluded(unsigned cap) {
	return cap % 8 == 0 || cap <= 7 || cap == 9 || cap == 15 || cap == 17 || cap == 23 || cap == 25 || cap == 31 || cap == 33 || cap == 39;
}
template <unsigned Cap, bool Inc = capIncluded(Cap)>
struct RegCap { static void go() { g_exec[Cap] = &StreamRt<(Long) Cap>::exec; } };
template <unsigned Cap>
struct RegCap<Cap, false> { static void go() {} };
template <unsigned Cap, bool End = (Cap > MAX_CAP)>
struct FillCap { static void go() { RegCap<Cap>::go(); FillCap<Cap + 1>::go(); } };
template <unsigned Cap>
struct FillCap<Cap, true> { static void go() {} };

static inline uint32_t ones(int w) { return w >= 32 ? 0xFFFFFFFFu : ((1u << w) - 1); }

static void valuesFor(int w, int exhaustUpTo, std::vector<uint32_t>& out) {
	out.clear();
	if (w <= exhaustUpTo) { for (uint32_t v = 0; v <= ones(w); ++v) out.push_back(v); return; }
	out.push_back(0); out.push_back(ones(w));
	for (int k = 0; k < w; ++k) out.push_back(1u << k);
	out.push_back(0x55555555u & ones(w)); out.push_back(0xAAAAAAAAu & ones(w));
	std::sort(out.begin(), out.end());
	out.erase(std::unique(out.begin(), out.end()), out.end());
}
static void walkFor(int w, std::vector<uint32_t>& out) {
	out.clear();
	out.push_back(0);
	for (int k = 0; k < w; ++k) out.push_back(1u << k);
	if (w > 1) out.push_back(ones(w));
}

// exact == true: the capacity is exactly the number of bits used (only run when that capacity is instantiated)
static bool runCase(const SCase& c, bool exact = false) {
	unsigned total = (unsigned) c.start;
	bool straddles = false;
	for (int k = 0; k < c.n; ++k) {
		if ((total % 8) + (unsigned) c.f[k].w > 8) straddles = true;  // the field occupies more than one byte
		total += (unsigned) c.f[k].w;
	}
	const unsigned cap = exact ? total : (total + 7) / 8 * 8;
	if (cap > MAX_CAP || !g_exec[cap]) return false;
	if (straddles) {
		uint64_t h = ckey(4, (uint64_t) c.mode[0], (uint64_t) c.start, (uint64_t) c.n, exact);
		for (int k = 0; k < c.n; ++k) h = ckey(h, (uint64_t) c.f[k].w, c.f[k].v);
		nontrivial(h);
	}
	Trace t;
	g_exec[cap](c, t);
	judgeStream(c, t);
	return true;
}

static void addField(SCase& c, int w, uint32_t v) { c.f[c.n].w = w; c.f[c.n].v = v; ++c.n; }


// long streams: cursors around every 256-byte boundary and at the end of buffers of more than 2048 bits (byte indices that do not
// fit 8 bits). One field of every width 1..32 plus a 7-bit sentinel, written by a writer constructed at the start cursor (the
// constructor clears the buffer), read back by a reader constructed at the same cursor; nothing outside the fields may be set.
template <Long Cap>
static void longStream() {
	typedef StreamRt<Cap> R;
	static typename R::Buf* heap = new (std::malloc(sizeof(typename R::Buf))) typename R::Buf;
	typename R::Buf& b = *heap;
	const unsigned bytes = R::BYTES;
	std::vector<long> starts;
	for (long base = 2048; base <= (long) Cap; base += 2048)
		for (long d = -40; d <= 8; ++d) if (base + d >= 0 && base + d + 39 <= (long) Cap) starts.push_back(base + d);
	for (long d = 39; d <= 39 + 16; ++d) if ((long) Cap - d >= 0) starts.push_back((long) Cap - d);
	for (size_t si = 0; si < starts.size(); ++si)
		for (int W = 1; W <= 32; ++W)
			for (int pat = 0; pat < 2; ++pat) {
				SCase c; c.mode = "long-stream"; c.start = (int) starts[si]; c.n = 0;
				addField(c, W, (pat ? 0xA5A5A5A5u : 0xFFFFFFFFu) & ones(W));
				addField(c, 7, 0x55);
				std::memset(b.data(), 0xA5, bytes);
				typename R::WS ws(b, (Long) c.start);
				R::write(ws, c.f[0].w, c.f[0].v);
				R::write(ws, c.f[1].w, c.f[1].v);
				const long end = c.start + W + 7;
				++g_streamTrips; g_eval += 4; g_streamEvals += 4;
				uint64_t h = ckey(6, (uint64_t) Cap, (uint64_t) c.start, (uint64_t) W, (uint64_t) pat); nontrivial(h);
				if ((long) ws.cursor() != end) streamFail("write-cursor", "after two writes the cursor is " + vt::str((long) ws.cursor()) + ", expected " + vt::str(end), c, Cap);
				for (long bit = 0; bit < 8L * bytes; ++bit)
					if ((bit < c.start || bit >= end) && bitOf(b.data(), bit)) {
						streamFail(bit < c.start ? "write-before" : "write-beyond", "bit " + vt::str(bit) + " outside the written range [" + vt::str((long) c.start) + "," + vt::str(end) + ") is set in a buffer the writer cleared", c, Cap);
						break;
					}
				typename R::RS rs(b, (Long) c.start);
				const uint32_t v0 = R::read(rs, W), v1 = R::read(rs, 7);
				if (v0 != c.f[0].v || v1 != c.f[1].v)
					streamFail("roundtrip", "fields read back as " + vt::str(v0) + "," + vt::str(v1), c, Cap);
				if ((long) rs.cursor() != end) streamFail("read-cursor", "after two reads the cursor is " + vt::str((long) rs.cursor()) + ", expected " + vt::str(end), c, Cap);
			}
}

static void streams() {
	FillCap<1>::go();
	std::vector<uint32_t> vals, v1s, v2s;
	const int exhaust = g_thorough ? 16 : 12;
	long exactRuns = 0;
	// one field at every alignment. "prefix-field": an A-bit field first; "cursor-start": writer/reader constructed at
	// cursor A; "exact-fill": no sentinel, the last write ends exactly at BIT_CAPACITY
	for (int A = 0; A < 8; ++A)
		for (int W = 1; W <= 32; ++W) {
			valuesFor(W, exhaust, vals);
			for (size_t vi = 0; vi < vals.size(); ++vi)
				for (int variant = 0; variant < 2; ++variant) {
					const uint32_t pre = variant ? 0 : ones(A), sent = variant ? 2 : 5;
					SCase c;
					c.mode = "prefix-field"; c.start = 0; c.n = 0;
					if (A) addField(c, A, pre);
					addField(c, W, vals[vi]);
					addField(c, 3, sent);
					runCase(c);
					if (A) {
						SCase d;
						d.mode = "cursor-start"; d.start = A; d.n = 0;
						addField(d, W, vals[vi]);
						addField(d, 3, sent);
						runCase(d);
					}
					if (W > exhaust || vals[vi] == 0 || vals[vi] == ones(W) || vals[vi] == (0x55555555u & ones(W))) {
						SCase e;
						e.mode = "exact-fill"; e.start = 0; e.n = 0;
						if (A) addField(e, A, pre);
						addField(e, W, vals[vi]);
						if (runCase(e, true)) ++exactRuns;
					}
					if (g_samples.size() < 6 && A == 5 && W == 13 && vals[vi] == 0x1555 && variant == 0)
						g_samples.push_back("{\"area\":\"stream\",\"mode\":\"prefix-field\",\"capacity_bits\":24,\"fields_width_value\":" + fieldsJson(c) +
											",\"checked\":\"cursor after each write/read, values read back, bits outside the fields untouched\"}");
				}
			checkAsserts("stream", "{\"alignment\":" + vt::str(A) + ",\"width\":" + vt::str(W) + "}");
		}
	printf("{\"type\":\"sub\",\"object\":\"stream singles\",\"roundtrips\":%ld,\"exact_fill\":%ld}\n", g_streamTrips, exactRuns);
	// all ordered pairs of widths, walking-one values, every alignment
	for (int A = 0; A < 8; ++A)
		for (int W1 = 1; W1 <= 32; ++W1) {
			walkFor(W1, v1s);
			for (int W2 = 1; W2 <= 32; ++W2) {
				walkFor(W2, v2s);
				for (size_t i = 0; i < v1s.size(); ++i)
					for (size_t j = 0; j < v2s.size(); ++j) {
						SCase c;
						c.mode = "prefix-field pair"; c.start = 0; c.n = 0;
						if (A) addField(c, A, ones(A));
						addField(c, W1, v1s[i]);
						addField(c, W2, v2s[j]);
						addField(c, 3, 5);
						runCase(c);
					}
			}
			checkAsserts("stream", "{\"alignment\":" + vt::str(A) + ",\"pair_first_width\":" + vt::str(W1) + "}");
		}
	printf("{\"type\":\"sub\",\"object\":\"stream pairs\",\"roundtrips\":%ld}\n", g_streamTrips);
	if (g_thorough) {
		static const int R[] = {1, 3, 7, 8, 9, 16, 17, 32};
		const int RN = (int) (sizeof R / sizeof R[0]);
		for (int A = 0; A < 8; ++A)
			for (int a = 0; a < RN; ++a)
				for (int b = 0; b < RN; ++b)
					for (int cc = 0; cc < RN; ++cc) {
						const int W[3] = {R[a], R[b], R[cc]};
						std::vector<uint32_t> vs[3];
						for (int k = 0; k < 3; ++k) {
							vs[k].push_back(0); vs[k].push_back(ones(W[k])); vs[k].push_back(1); vs[k].push_back(1u << (W[k] - 1)); vs[k].push_back(0x55555555u & ones(W[k]));
							std::sort(vs[k].begin(), vs[k].end());
							vs[k].erase(std::unique(vs[k].begin(), vs[k].end()), vs[k].end());
						}
						for (size_t i = 0; i < vs[0].size(); ++i)
							for (size_t j = 0; j < vs[1].size(); ++j)
								for (size_t k = 0; k < vs[2].size(); ++k) {
									SCase c;
									c.mode = "prefix-field triple"; c.start = 0; c.n = 0;
									if (A) addField(c, A, ones(A));
									addField(c, W[0], vs[0][i]);
									addField(c, W[1], vs[1][j]);
									addField(c, W[2], vs[2][k]);
									addField(c, 3, 5);
									runCase(c);
								}
					}
		checkAsserts("stream", "{\"phase\":\"triples\"}");
		printf("{\"type\":\"sub\",\"object\":\"stream triples\",\"roundtrips\":%ld}\n", g_streamTrips);
	}
	longStream<2048>(); longStream<2100>(); longStream<4096>(); longStream<8200>();
	if (g_thorough) { longStream<32768>(); longStream<65528>(); longStream<65535>(); }
	checkAsserts("stream", "{\"phase\":\"long\"}");
	printf("{\"type\":\"sub\",\"object\":\"long streams\",\"roundtrips\":%ld}\n", g_streamTrips);
}

// ---- buffer comparison / clear ---------------------------------------------------------------------------------------

struct BufOps {
	unsigned cap, bytes;
	void* (*make)();
	uint8_t* (*data)(void*);
	bool (*eq)(const void*, const void*);
	bool (*ne)(const void*, const void*);
	void (*clear)(void*);
};
template <Long Cap>
struct BufAdapter {
	typedef StreamBufferT<Cap> Buf;
	static void* make() { return new (std::malloc(sizeof(Buf))) Buf(); }  // exactly-sized, value-initialised
	static uint8_t* data(void* b) { return static_cast<Buf*>(b)->data(); }
	static bool eq(const void* a, const void* b) { return *static_cast<const Buf*>(a) == *static_cast<const Buf*>(b); }
	static bool ne(const void* a, const void* b) { return *static_cast<const Buf*>(a) != *static_cast<const Buf*>(b); }
	static void clear(void* b) { static_cast<Buf*>(b)->clear(); }
	static BufOps ops() { BufOps o = {Cap, Buf::BYTE_COUNT, &make, &data, &eq, &ne, &clear}; return o; }
};

static void bufFail(const BufOps& o, const char* clause, const std::string& msg, int pattern, long bit, int byte, int delta) {
	violate(std::string("buffer/") + clause, [&]() {
		return std::make_pair("StreamBufferT<" + vt::str(o.cap) + ">: " + msg, "{\"harness\":\"c18_bits\",\"area\":\"buffer\",\"capacity_bits\":" + vt::str(o.cap) + ",\"pattern\":" + vt::str(pattern) +
																				   ",\"flipped_bit\":" + vt::str(bit) + ",\"changed_byte\":" + vt::str(byte) + ",\"xor\":" + vt::str(delta) + "}");
	});
}

static void bufferCheck(const BufOps& o) {
	void* a = o.make();
	void* b = o.make();
	void* z = o.make();
	uint8_t* da = o.data(a);
	uint8_t* db = o.data(b);
	for (int pattern = 0; pattern < 4; ++pattern) {
		for (unsigned k = 0; k < o.bytes; ++k) {
			const uint8_t v = pattern == 0 ? 0 : pattern == 1 ? 0xFF : pattern == 2 ? 0x5A : (uint8_t) (k * 37 + 11);
			da[k] = v;
			db[k] = v;
		}
		g_eval += 6; g_bufEvals += 6;
		if (!o.eq(a, b) || !o.eq(b, a)) bufFail(o, "eq", "operator== is false for equal contents", pattern, -1, -1, 0);
		if (o.ne(a, b) || o.ne(b, a)) bufFail(o, "neq", "operator!= is true for equal contents", pattern, -1, -1, 0);
		if (!o.eq(a, a) || o.ne(a, a)) bufFail(o, "eq", "a buffer does not compare equal to itself", pattern, -1, -1, 0);
		for (long bit = 0; bit < (long) o.cap; ++bit) {
			db[bit >> 3] ^= (uint8_t) (1u << (bit & 7));
			g_eval += 4; g_bufEvals += 4;
			if (o.eq(a, b) || o.eq(b, a)) bufFail(o, "eq", "operator== is true although bit " + vt::str(bit) + " differs", pattern, bit, -1, 0);
			if (!o.ne(a, b) || !o.ne(b, a)) bufFail(o, "neq", "operator!= is false although bit " + vt::str(bit) + " differs", pattern, bit, -1, 0);
			db[bit >> 3] ^= (uint8_t) (1u << (bit & 7));
		}
		static const int few[] = {1, 0x80, 0xFF, 0x55, 0x18};
		for (unsigned k = 0; k < o.cap / 8; ++k) {
			const int nd = o.cap <= 17 ? 255 : (int) (sizeof few / sizeof few[0]);
			for (int di = 0; di < nd; ++di) {
				const int delta = o.cap <= 17 ? di + 1 : few[di];
				db[k] ^= (uint8_t) delta;
				g_eval += 2; g_bufEvals += 2;
				if (o.eq(a, b)) bufFail(o, "eq", "operator== is true although byte " + vt::str(k) + " differs", pattern, -1, (int) k, delta);
				if (!o.ne(a, b)) bufFail(o, "neq", "operator!= is false although byte " + vt::str(k) + " differs", pattern, -1, (int) k, delta);
				db[k] ^= (uint8_t) delta;
			}
		}
		// clear(): afterwards no bit is set and the buffer equals a new (value-initialised) one
		o.clear(b);
		bool zero = true;
		for (unsigned k = 0; k < o.bytes; ++k) zero = zero && db[k] == 0;
		g_eval += 2; g_bufEvals += 2;
		if (!zero) bufFail(o, "clear", "clear() left bits set", pattern, -1, -1, 0);
		if (!o.eq(b, z) || o.ne(b, z)) bufFail(o, "clear", "a cleared buffer differs from a new one", pattern, -1, -1, 0);
	}
	if (o.cap % 8 != 0) nontrivial(ckey(5, o.cap));
	checkAsserts("buffer", "{\"capacity_bits\":" + vt::str(o.cap) + "}");
	std::free(a); std::free(b); std::free(z);
}

#endif  // VT_PART 0 / 5

// ====================================================================================================================

int main(int argc, char** argv) {
	g_thorough = argc > 1 && std::string(argv[1]) == "thorough";
	guard::install();
#if VT_PART == 0 || VT_PART == 1
	runN<1>(); runN<2>(); runN<3>(); runN<4>(); runN<5>(); runN<6>(); runN<7>(); runN<8>(); runN<9>(); runN<10>(); runN<11>(); runN<12>(); runN<13>();
#endif
#if VT_PART == 0 || VT_PART == 2
	runN<14>(); runN<15>(); runN<16>(); runN<17>(); runN<24>();
#endif
#if VT_PART == 0 || VT_PART == 3
	runN<31>(); runN<32>(); runN<33>();
#endif
#if VT_PART == 0 || VT_PART == 4
	runN<64>();
#endif
#if VT_PART == 0 || VT_PART == 5
	streams();
	bufferCheck(BufAdapter<1>::ops()); bufferCheck(BufAdapter<7>::ops()); bufferCheck(BufAdapter<8>::ops()); bufferCheck(BufAdapter<9>::ops());
	bufferCheck(BufAdapter<16>::ops()); bufferCheck(BufAdapter<17>::ops()); bufferCheck(BufAdapter<32>::ops()); bufferCheck(BufAdapter<33>::ops());
	bufferCheck(BufAdapter<64>::ops()); bufferCheck(BufAdapter<100>::ops());
	if (g_samples.size() < 8)
		g_samples.push_back("{\"area\":\"buffer\",\"capacity_bits\":33,\"checked\":\"== and != for equal contents, every single-bit flip below bit 33, byte changes, clear()\"}");
#endif

	std::sort(g_nt.begin(), g_nt.end());
	const long distinct = (long) (std::unique(g_nt.begin(), g_nt.end()) - g_nt.begin());
	std::string samples = "[";
	for (size_t i = 0; i < g_samples.size(); ++i) samples += (i ? "," : "") + g_samples[i];
	samples += "]";
	std::string counts = "{";
	for (std::map<std::string, long>::const_iterator it = vt::rep().perFingerprint.begin(); it != vt::rep().perFingerprint.end(); ++it)
		counts += std::string(counts.size() > 1 ? "," : "") + "\"" + vt::jesc(it->first) + "\":" + vt::str(it->second);
	counts += "}";
	printf("{\"type\":\"summary\",\"part\":%d,\"evaluations\":%ld,\"distinct_nontrivial\":%ld,\"array_states\":%ld,\"array_unary_evals\":%ld,\"array_pair_evals\":%ld,"
		   "\"view_cases\":%ld,\"view_evals\":%ld,\"stream_roundtrips\":%ld,\"stream_evals\":%ld,\"buffer_evals\":%ld,\"guard_page_faults_caught\":%ld,"
		   "\"heap_calls_skipped_after_fault\":%ld,\"stream_layout_differs_from_lsb_first\":%ld,\"and_bool_false_on_intersecting_sets_observed\":%lld,\"cbits_static_get_tested\":%d,\"violations\":%ld,"
		   "\"violation_counts\":%s,\"case_samples\":%s,\"samples\":%s}\n",
		   (int) VT_PART, g_eval, distinct, g_arrStates, g_arrEvals, g_pairEvals, g_viewCases, g_viewEvals, g_streamTrips, g_streamEvals, g_bufEvals, guard::faults, g_heapSkipped,
		   g_layoutMismatch, g_andIntersectsObserved, CBITS_STATIC_GET ? 1 : 0, vt::rep().violations, counts.c_str(), samples.c_str(), samples.c_str());
	return 0;
}
