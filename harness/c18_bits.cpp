// C18: bit arrays, their sub-range views and bit streams vs. ideal sets / ideal bit sequences.
//
//  * BitArrayT<N>: explicit-state exploration of the *concrete* object (storage bytes, padding included) from a
//    freshly constructed array, every edge compared with a std::bitset reference. N <= 10: every reachable
//    concrete state x every operation x every ordered pair of states for the binary operators. Larger N: the
//    same exploration restricted to states with <= 2 or >= N-1 members and prefix/suffix intervals.
//  * Bits / CBits views: every (unit, width) with 8*unit+width <= N, in four forms (dynamic/static view x
//    dynamic/static index). Every call is made on three copies of the parent object: one that ends exactly at a
//    PROT_NONE page (an over-read/over-write faults, is caught, reported with its own fingerprint and the run goes
//    on), one that starts exactly after a PROT_NONE page, and one in an exactly-sized malloc block (AddressSanitizer
//    backstop; skipped for a call that already faulted on a guard page, because that call has been reported).
//  * StreamBufferT / BitWriteStreamT / BitReadStreamT: every start alignment x every width x value sets, pairs and
//    triples of fields, buffers in exactly-sized malloc blocks, independent reference bit vector.
//
// Oracles only talk about what the property promises: membership of indices < N, emptiness, equality of sets,
// intersection, the addressed range of a view, read-back values and cursors, equality of buffer contents.
// Padding bits and the bit layout inside the stream buffer are NOT part of any oracle.
#define HFSM2_ENABLE_SERIALIZATION
#ifdef VT_ASSERT
#define HFSM2_ENABLE_ASSERT
#endif
#ifdef VT_DEV_HEADER
#include <hfsm2/machine_dev.hpp>
#else
#include <hfsm2/machine.hpp>
#endif
#include "harness/common.hpp"
#include <algorithm>
#include <bitset>
#include <csetjmp>
#include <csignal>
#include <deque>
#include <new>
#include <sys/mman.h>
#include <unistd.h>
#include <utility>

using namespace hfsm2;
using namespace hfsm2::detail;

// ---- counters ----------------------------------------------------------------------------------------------------

static bool g_thorough = false;
static long g_eval = 0;  // every comparison of a library result with the reference
static long g_arrStates = 0, g_arrEvals = 0, g_pairEvals = 0, g_viewEvals = 0, g_viewCases = 0;
static long g_streamTrips = 0, g_streamEvals = 0, g_bufEvals = 0, g_layoutMismatch = 0, g_heapSkipped = 0;
static std::vector<uint64_t> g_nt;  // hashed keys of non-trivial cases (sorted + uniqued at the end)
static std::vector<std::string> g_samples;

static inline uint64_t mix(uint64_t x) {
	x += 0x9e3779b97f4a7c15ULL;
	x = (x ^ (x >> 30)) * 0xbf58476d1ce4e5b9ULL;
	x = (x ^ (x >> 27)) * 0x94d049bb133111ebULL;
	return x ^ (x >> 31);
}
static inline uint64_t ckey(uint64_t a, uint64_t b, uint64_t c = 0, uint64_t d = 0, uint64_t e = 0, uint64_t f = 0, uint64_t g = 0) {
	uint64_t h = mix(a);
	h = mix(h ^ b); h = mix(h ^ c); h = mix(h ^ d); h = mix(h ^ e); h = mix(h ^ f); h = mix(h ^ g);
	return h;
}
static inline void nontrivial(uint64_t k) { g_nt.push_back(k); }

// violation with lazily built message/replay (some defect classes fire millions of times)
template <typename F>
static void violate(const std::string& fp, F build) {
	vt::Reporter& r = vt::rep();
	std::map<std::string, long>::iterator it = r.perFingerprint.find(fp);
	if (it != r.perFingerprint.end() && it->second >= r.maxPerFingerprint) { ++it->second; ++r.violations; return; }
	const std::pair<std::string, std::string> mr = build();
	r.violation(fp, mr.first, mr.second);
}

static long g_breaksSeen = 0;
static void checkAsserts(const std::string& area, const std::string& ctxJson) {
	if (vt::breaks().count == g_breaksSeen) return;
	const std::string where = std::string(vt::breaks().file ? vt::breaks().file : "?") + ":" + vt::str(vt::breaks().line);
	g_breaksSeen = vt::breaks().count;
	vt::rep().violation(area + "/assert", "library assertion " + where + " fired although every visible precondition was respected",
						"{\"harness\":\"c18_bits\",\"area\":\"" + area + "\",\"context\":" + ctxJson + ",\"assert\":\"" + vt::jesc(where) + "\"}");
}

typedef std::bitset<64> Ref;  // the reference model of a bit array: a set of indices

static std::string membersJson(uint64_t m) {
	std::string s = "[";
	bool first = true;
	for (unsigned i = 0; i < 64; ++i)
		if ((m >> i) & 1) { s += (first ? "" : ",") + vt::str(i); first = false; }
	return s + "]";
}
static inline int popcnt(uint64_t m) { return (int) Ref(m).count(); }

// ---- guard pages ---------------------------------------------------------------------------------------------------

namespace guard {
static sigjmp_buf env;
static volatile sig_atomic_t armed = 0;
static long faults = 0;
static struct sigaction oldSegv, oldBus;

static void handler(int sig, siginfo_t* si, void* ctx) {
	if (armed) { armed = 0; siglongjmp(env, 1); }
	const struct sigaction& old = sig == SIGBUS ? oldBus : oldSegv;  // a genuine crash: hand over (e.g. to ASan's reporter)
	if ((old.sa_flags & SA_SIGINFO) && old.sa_sigaction) { old.sa_sigaction(sig, si, ctx); return; }
	signal(sig, SIG_DFL);
	raise(sig);
}
static void install() {
	struct sigaction sa;
	memset(&sa, 0, sizeof sa);
	sa.sa_sigaction = handler;
	sa.sa_flags = SA_SIGINFO | SA_NODEFER;
	sigemptyset(&sa.sa_mask);
	sigaction(SIGSEGV, &sa, &oldSegv);
	sigaction(SIGBUS, &sa, &oldBus);
}
// true: f() completed; false: f() touched a guard page
template <typename F>
__attribute__((noinline)) static bool run(F f) {
	armed = 1;
	if (sigsetjmp(env, 0) == 0) { f(); armed = 0; return true; }
	++faults;
	return false;
}
// [PROT_NONE page][data page][PROT_NONE page]; returns the data page
static uint8_t* page(long& pageSize) {
	pageSize = sysconf(_SC_PAGESIZE);
	uint8_t* m = (uint8_t*) mmap(0, 3 * pageSize, PROT_READ | PROT_WRITE, MAP_PRIVATE | MAP_ANONYMOUS, -1, 0);
	if (m == (uint8_t*) MAP_FAILED) { perror("mmap"); exit(3); }
	mprotect(m, pageSize, PROT_NONE);
	mprotect(m + 2 * pageSize, pageSize, PROT_NONE);
	return m + pageSize;
}
}  // namespace guard

// ====================================================================================================================
// BitArrayT<N>
// ====================================================================================================================

struct AOp { char kind; int i; int other; };
// 'S' set(Index i) | 'I' set(int i) | 's' set<i>() | 'C' clear(Index i) | 'J' clear(int i) | 'c' clear<i>()
// 'A' set() | 'Z' clear() | '&' operator&=(state other)

template <unsigned N>
struct StaticTab {
	typedef BitArrayT<N> BA;
	bool (*get[N])(const BA&);
	void (*set[N])(BA&);
	void (*clr[N])(BA&);
};
template <unsigned N, Short I> static bool sGet(const BitArrayT<N>& a) { return a.template get<I>(); }
template <unsigned N, Short I> static void sSet(BitArrayT<N>& a) { a.template set<I>(); }
template <unsigned N, Short I> static void sClr(BitArrayT<N>& a) { a.template clear<I>(); }
template <unsigned N, unsigned I, bool End = (I >= N)>
struct FillStatic {
	static void go(StaticTab<N>& t) {
		t.get[I] = &sGet<N, (Short) I>;
		t.set[I] = &sSet<N, (Short) I>;
		t.clr[I] = &sClr<N, (Short) I>;
		FillStatic<N, I + 1>::go(t);
	}
};
template <unsigned N, unsigned I>
struct FillStatic<N, I, true> { static void go(StaticTab<N>&) {} };

template <unsigned N>
struct ArrayCheck {
	typedef BitArrayT<N> BA;
	typedef typename BA::Index Index;
	enum { UC = BA::UNIT_COUNT };

	struct St { uint64_t raw; uint64_t model; int parent; AOp op; };

	std::vector<St> states;
	std::map<std::pair<uint64_t, uint64_t>, int> index;
	BA* hA;
	BA* hB;
	StaticTab<N> tab;
	uint64_t FULL;
	bool pairAll;

	static ArrayCheck& inst() { static ArrayCheck c; return c; }

	ArrayCheck() {
		FULL = N == 64 ? ~0ULL : ((1ULL << (N & 63)) - 1);
		hA = new (std::malloc(sizeof(BA))) BA;  // exactly-sized heap blocks: ASan sees any access outside the object
		hB = new (std::malloc(sizeof(BA))) BA;
		FillStatic<N, 0>::go(tab);
		pairAll = false;
	}

	static uint64_t rawOf(const BA& a) {
		uint64_t r = 0;
		for (unsigned k = 0; k < UC; ++k) r |= (uint64_t) a._storage[k] << (8 * k);
		return r;
	}
	static void restore(BA& a, uint64_t raw) {
		for (unsigned k = 0; k < UC; ++k) a._storage[k] = (uint8_t) (raw >> (8 * k));
	}
	// the observation the property talks about: which indices < N are members
	static uint64_t obs(const BA& a) {
		uint64_t r = 0;
		for (unsigned j = 0; j < N; ++j)
			if (a.get((Index) j)) r |= 1ULL << j;
		return r;
	}
	uint64_t pad(uint64_t raw) const { return raw & ~FULL; }

	std::string opJson(const AOp& op) const {
		switch (op.kind) {
		case 'S': return "\"set(" + vt::str(op.i) + ")\"";
		case 'I': return "\"set(int " + vt::str(op.i) + ")\"";
		case 's': return "\"set<" + vt::str(op.i) + ">()\"";
		case 'C': return "\"clear(" + vt::str(op.i) + ")\"";
		case 'J': return "\"clear(int " + vt::str(op.i) + ")\"";
		case 'c': return "\"clear<" + vt::str(op.i) + ">()\"";
		case 'A': return "\"set()\"";
		case 'Z': return "\"clear()\"";
		case '&': return "{\"and_assign_with_array_built_by\":" + histJson(op.other) + "}";
		}
		return "\"?\"";
	}
	std::string histJson(int s) const {
		std::vector<std::string> parts;
		while (s >= 0 && states[s].parent >= 0) { parts.push_back(opJson(states[s].op)); s = states[s].parent; }
		std::string o = "[";
		for (size_t k = parts.size(); k-- > 0;) { o += parts[k]; if (k) o += ","; }
		return o + "]";
	}
	std::string replay(int s, const std::string& check, const std::string& extra = "") const {
		return "{\"harness\":\"c18_bits\",\"area\":\"bitarray\",\"N\":" + vt::str(N) + ",\"ops\":" + histJson(s) +
			   ",\"members\":" + membersJson(states[s].model) + ",\"check\":\"" + check + "\"" + extra + "}";
	}

	// one fingerprint for everything that is a consequence of set() filling the padding bits: the in-range bits agree
	// with the reference, padding bits are set, and an observable set-level operation gives the wrong answer
	std::string cls(const char* clause, const St& a) const {
		return ((a.raw & FULL) == a.model && pad(a.raw)) ? "bitarray/set-all-padding" : std::string("bitarray/") + clause;
	}
	std::string cls2(const char* clause, const St& a, const St& b) const {
		return ((a.raw & FULL) == a.model && (b.raw & FULL) == b.model && (pad(a.raw) | pad(b.raw))) ? "bitarray/set-all-padding"
																										 : std::string("bitarray/") + clause;
	}

	bool keep(uint64_t m) const {
		if (N <= 10) return true;
		const int pc = popcnt(m);
		if (pc <= 2 || pc >= (int) N - 1) return true;
		if ((m & (m + 1)) == 0) return true;  // prefix interval {0..k}
		const uint64_t inv = ~m & FULL;
		return (inv & (inv + 1)) == 0;  // suffix interval {k..N-1}
	}
	bool isCore(uint64_t m) const { const int pc = popcnt(m); return pc <= 1 || pc >= (int) N - 1; }

	int add(uint64_t raw, uint64_t model, int parent, AOp op) {
		const std::pair<uint64_t, uint64_t> k(raw, model);
		std::map<std::pair<uint64_t, uint64_t>, int>::iterator it = index.find(k);
		if (it != index.end()) return it->second;
		if (!keep(model)) return -1;
		St st = {raw, model, parent, op};
		states.push_back(st);
		index[k] = (int) states.size() - 1;
		return (int) states.size() - 1;
	}

	void noteNT(int s, int opcode, unsigned i) {
		// non-trivial: the array has a partially used last unit and the operation touches / observes that unit
		if (N % 8 != 0 && (i == 255 || i / 8 == UC - 1)) nontrivial(ckey(1, N, (uint64_t) s, (uint64_t) opcode, i));
	}

	void mutate(int s, const St& st, AOp op, uint64_t expected, const char* clause) {
		BA& a = *hA;
		restore(a, st.raw);
		switch (op.kind) {
		case 'S': a.set((Index) op.i); break;
		case 'I': a.set((int) op.i); break;
		case 's': tab.set[op.i](a); break;
		case 'C': a.clear((Index) op.i); break;
		case 'J': a.clear((int) op.i); break;
		case 'c': tab.clr[op.i](a); break;
		case 'A': a.set(); break;
		case 'Z': a.clear(); break;
		}
		const uint64_t got = obs(a);
		++g_eval; ++g_arrEvals;
		noteNT(s, op.kind, (op.kind == 'A' || op.kind == 'Z') ? 255u : (unsigned) op.i);
		if (got != expected) {
			const AOp o = op;
			violate(std::string("bitarray/") + clause, [&]() {
				return std::make_pair("BitArrayT<" + vt::str(N) + ">: after " + opJson(o) + " members are " + membersJson(got) + ", expected " + membersJson(expected),
									  replay(s, opJson(o).substr(1, opJson(o).size() - 2), ",\"expected\":" + membersJson(expected) + ",\"got\":" + membersJson(got)));
			});
			return;
		}
		if ((op.kind == 'Z') && !a.empty()) {
			violate("bitarray/clear-all", [&]() { return std::make_pair("BitArrayT<" + vt::str(N) + ">: not empty() right after clear()", replay(s, "clear(); empty()")); });
			return;
		}
		add(rawOf(a), expected, s, op);
	}

	void unary(int s) {
		const St st = states[s];
		const Ref m(st.model);
		BA& a = *hA;
		restore(a, st.raw);
		for (unsigned i = 0; i < N; ++i) {
			const bool e = m.test(i);
			const bool g1 = a.get((Index) i), g2 = a.get((int) i), g3 = a.get((Long) i), g4 = tab.get[i](a);
			g_eval += 4; g_arrEvals += 4;
			noteNT(s, 'g', i);
			if (g1 != e || g2 != e || g3 != e || g4 != e)
				violate("bitarray/get", [&]() {
					return std::make_pair("BitArrayT<" + vt::str(N) + ">: get(" + vt::str(i) + ") dyn/int/Long/static = " + vt::str(g1) + vt::str(g2) + vt::str(g3) + vt::str(g4) + ", expected " + vt::str(e),
										  replay(s, "get(" + vt::str(i) + ")"));
				});
		}
		if (rawOf(a) != st.raw)
			violate("bitarray/get", [&]() { return std::make_pair("BitArrayT<" + vt::str(N) + ">: get() modified the array", replay(s, "get")); });
		{
			const bool e = m.none(), g = a.empty();
			++g_eval; ++g_arrEvals;
			noteNT(s, 'e', 255);
			if (g != e)
				violate(cls("empty", st), [&]() {
					return std::make_pair("BitArrayT<" + vt::str(N) + ">: empty()=" + vt::str(g) + " but the array has " + vt::str(m.count()) + " member(s) " + membersJson(st.model) +
											  " (storage 0x" + hex(st.raw) + ")",
										  replay(s, "empty()", ",\"expected\":" + std::string(e ? "true" : "false")));
				});
		}
		for (unsigned i = 0; i < N; ++i) {
			Ref ms = m; ms.set(i);
			Ref mc = m; mc.reset(i);
			const AOp o1 = {'S', (int) i, 0}, o2 = {'I', (int) i, 0}, o3 = {'s', (int) i, 0};
			const AOp o4 = {'C', (int) i, 0}, o5 = {'J', (int) i, 0}, o6 = {'c', (int) i, 0};
			mutate(s, st, o1, ms.to_ullong(), "set-index");
			mutate(s, st, o2, ms.to_ullong(), "set-index");
			mutate(s, st, o3, ms.to_ullong(), "set-index");
			mutate(s, st, o4, mc.to_ullong(), "clear-index");
			mutate(s, st, o5, mc.to_ullong(), "clear-index");
			mutate(s, st, o6, mc.to_ullong(), "clear-index");
		}
		const AOp oa = {'A', 0, 0}, oz = {'Z', 0, 0};
		mutate(s, st, oa, FULL, "set-all");
		mutate(s, st, oz, 0, "clear-all");
	}

	static std::string hex(uint64_t v) { char b[32]; snprintf(b, sizeof b, "%llx", (unsigned long long) v); return b; }

	void pair(int ia, int ib) {
		const St A = states[ia], B = states[ib];
		BA& a = *hA;
		BA& b = *hB;
		restore(a, A.raw);
		restore(b, B.raw);
		const uint64_t inter = (Ref(A.model) & Ref(B.model)).to_ullong();
		const uint64_t diff = A.model ^ B.model;
		if (N % 8 != 0 && popcnt(diff) <= 1) nontrivial(ckey(2, N, (uint64_t) ia, (uint64_t) ib));
		g_eval += 3; g_pairEvals += 3;
		{
			const bool e = A.model != B.model, g = a != b;
			if (g != e)
				violate(cls2("neq", A, B), [&]() {
					return std::make_pair("BitArrayT<" + vt::str(N) + ">: (a != b)=" + vt::str(g) + " for a=" + membersJson(A.model) + " (storage 0x" + hex(A.raw) + ") b=" +
											  membersJson(B.model) + " (storage 0x" + hex(B.raw) + ")",
										  replay(ia, "a != b", ",\"b_ops\":" + histJson(ib) + ",\"b_members\":" + membersJson(B.model) + ",\"expected\":" + (e ? "true" : "false")));
				});
		}
		{
			const bool g = a & b;
			if (!inter && g)
				violate(cls2("and-disjoint", A, B), [&]() {
					return std::make_pair("BitArrayT<" + vt::str(N) + ">: (a & b) is true for disjoint a=" + membersJson(A.model) + " b=" + membersJson(B.model),
										  replay(ia, "a & b", ",\"b_ops\":" + histJson(ib) + ",\"b_members\":" + membersJson(B.model) + ",\"expected\":false"));
				});
			if (inter && !g)
				violate("bitarray/and-intersects", [&]() {
					return std::make_pair("BitArrayT<" + vt::str(N) + ">: (a & b) is false although a=" + membersJson(A.model) + " and b=" + membersJson(B.model) + " share " + membersJson(inter),
										  replay(ia, "a & b", ",\"b_ops\":" + histJson(ib) + ",\"b_members\":" + membersJson(B.model) + ",\"expected\":true"));
				});
		}
		{
			a &= b;
			const uint64_t got = obs(a);
			const bool bSame = rawOf(b) == B.raw;
			if (got != inter || !bSame) {
				violate("bitarray/and-assign", [&]() {
					return std::make_pair("BitArrayT<" + vt::str(N) + ">: a &= b gives " + membersJson(got) + (bSame ? "" : " and modifies b") + ", expected " + membersJson(inter),
										  replay(ia, "a &= b", ",\"b_ops\":" + histJson(ib) + ",\"b_members\":" + membersJson(B.model) + ",\"expected\":" + membersJson(inter)));
				});
			} else {
				const AOp o = {'&', 0, ib};
				add(rawOf(a), inter, ia, o);
			}
		}
	}

	void run() {
		pairAll = N <= 10 || (g_thorough && N <= 33);
		BA* fresh = new (hA) BA;
		const uint64_t raw0 = rawOf(*fresh);
		++g_eval; ++g_arrEvals;
		if (obs(*fresh) != 0 || !fresh->empty())
			vt::rep().violation("bitarray/ctor", "BitArrayT<" + vt::str(N) + ">: a new array is not empty", "{\"harness\":\"c18_bits\",\"area\":\"bitarray\",\"N\":" + vt::str(N) + ",\"ops\":[]}");
		const AOp none = {0, 0, 0};
		St s0 = {raw0, 0, -1, none};
		states.push_back(s0);
		index[std::make_pair(raw0, (uint64_t) 0)] = 0;
		size_t done = 0;
		while (done < states.size()) {
			const int k = (int) done;
			unary(k);
			const bool coreK = isCore(states[k].model);
			for (int j = 0; j <= k; ++j) {
				if (!pairAll && !coreK && !isCore(states[j].model)) continue;
				pair(k, j);
				if (j != k) pair(j, k);
			}
			++done;
		}
		g_arrStates += (long) states.size();
		checkAsserts("bitarray", "{\"N\":" + vt::str(N) + "}");
		if (g_samples.size() < 2 && N % 8 != 0 && states.size() > 6) {
			const int s = (int) states.size() - 1;
			g_samples.push_back("{\"area\":\"bitarray\",\"N\":" + vt::str(N) + ",\"ops\":" + histJson(s) + ",\"members\":" + membersJson(states[s].model) +
								",\"storage\":\"0x" + hex(states[s].raw) + "\",\"checked\":\"get(i) all i and forms, empty(), set/clear(i) all i and forms, set(), clear(), then !=, &, &= against every other state\"}");
		}
		printf("{\"type\":\"sub\",\"object\":\"BitArrayT<%u>\",\"states\":%ld,\"pairs\":\"%s\"}\n", N, (long) states.size(), pairAll ? "all" : "core x all");
	}
};

// ====================================================================================================================
// Bits / CBits views
// ====================================================================================================================

enum VOp { V_BOOL = 0, V_CBOOL, V_GET, V_CGET, V_SET, V_CLR, V_CLRALL, V_COUNT };
static const char* const V_NAME[V_COUNT] = {"bool", "bool", "get", "get", "set", "clear", "clear-all"};
static const char* const V_CLASS[V_COUNT] = {"Bits", "CBits", "Bits", "CBits", "Bits", "Bits", "Bits"};
static const char* const V_CALL[V_COUNT] = {"operator bool()", "operator bool()", "get(i)", "get(i)", "set(i)", "clear(i)", "clear()"};
enum VForm { F_DD = 0, F_SD, F_DS, F_SS, F_COUNT };
static const char* const F_NAME[F_COUNT] = {"bits(Units{u,w}) + dynamic index", "bits<U,W>() + dynamic index", "bits(Units{u,w}) + static index <I>", "bits<U,W>() + static index <I>"};

#ifdef VT_CBITS_STATIC_GET
static const bool CBITS_STATIC_GET = true;
#else
static const bool CBITS_STATIC_GET = false;  // CBits::get<I>() cannot be instantiated (see checks/c18.py probe)
#endif

// dynamic view, dynamic index
template <unsigned N>
static bool ddOp(BitArrayT<N>& a, Short u, Short w, int op, unsigned i) {
	typedef BitArrayT<N> BA;
	typedef typename BA::Index Index;
	const BA& ca = a;
	const Units units{u, w};
	switch (op) {
	case V_BOOL: { typename BA::Bits v = a.bits(units); return static_cast<bool>(v); }
	case V_CBOOL: { typename BA::CBits v = ca.cbits(units); return static_cast<bool>(v); }
	case V_GET: { const typename BA::Bits v = a.bits(units); return v.get((Index) i); }
	case V_CGET: { const typename BA::CBits v = ca.cbits(units); return v.get((Index) i); }
	case V_SET: { typename BA::Bits v = a.bits(units); v.set((Index) i); return false; }
	case V_CLR: { typename BA::Bits v = a.bits(units); v.clear((Index) i); return false; }
	case V_CLRALL: { typename BA::Bits v = a.bits(units); v.clear(); return false; }
	}
	return false;
}
// static view, dynamic index
template <unsigned N, Short U, Short W>
static bool sdOp(BitArrayT<N>& a, int op, unsigned i) {
	typedef BitArrayT<N> BA;
	typedef typename BA::Index Index;
	const BA& ca = a;
	switch (op) {
	case V_BOOL: { typename BA::Bits v = a.template bits<U, W>(); return static_cast<bool>(v); }
	case V_CBOOL: { typename BA::CBits v = ca.template cbits<U, W>(); return static_cast<bool>(v); }
	case V_GET: { const typename BA::Bits v = a.template bits<U, W>(); return v.get((Index) i); }
	case V_CGET: { const typename BA::CBits v = ca.template cbits<U, W>(); return v.get((Index) i); }
	case V_SET: { typename BA::Bits v = a.template bits<U, W>(); v.set((Index) i); return false; }
	case V_CLR: { typename BA::Bits v = a.template bits<U, W>(); v.clear((Index) i); return false; }
	case V_CLRALL: { typename BA::Bits v = a.template bits<U, W>(); v.clear(); return false; }
	}
	return false;
}
// dynamic view, static index
template <unsigned N, Short I>
static bool dsOp(BitArrayT<N>& a, Short u, Short w, int op) {
	typedef BitArrayT<N> BA;
	const BA& ca = a;
	const Units units{u, w};
	(void) ca;
	switch (op) {
	case V_GET: { const typename BA::Bits v = a.bits(units); return v.template get<I>(); }
#ifdef VT_CBITS_STATIC_GET
	case V_CGET: { const typename BA::CBits v = ca.cbits(units); return v.template get<I>(); }
#endif
	case V_SET: { typename BA::Bits v = a.bits(units); v.template set<I>(); return false; }
	case V_CLR: { typename BA::Bits v = a.bits(units); v.template clear<I>(); return false; }
	}
	return false;
}
// static view, static index
template <unsigned N, Short U, Short W, Short I>
static bool ssOp(BitArrayT<N>& a, int op) {
	typedef BitArrayT<N> BA;
	const BA& ca = a;
	(void) ca;
	switch (op) {
	case V_GET: { const typename BA::Bits v = a.template bits<U, W>(); return v.template get<I>(); }
#ifdef VT_CBITS_STATIC_GET
	case V_CGET: { const typename BA::CBits v = ca.template cbits<U, W>(); return v.template get<I>(); }
#endif
	case V_SET: { typename BA::Bits v = a.template bits<U, W>(); v.template set<I>(); return false; }
	case V_CLR: { typename BA::Bits v = a.template bits<U, W>(); v.template clear<I>(); return false; }
	}
	return false;
}

// which (N, U, W) get the fully static form instantiated for every index (bounded to keep compile time sane):
// everything for N <= 17; for larger N the widths around unit boundaries and the views that end at the array's end
constexpr bool ssIncluded(unsigned N, unsigned U, unsigned W) {
	return N <= 17 || W <= 2 || W % 8 == 0 || ((W % 8 == 1 || W % 8 == 7) && N <= 33) || 8 * U + W == N;
}

template <unsigned N>
struct ViewTab {
	typedef BitArrayT<N> BA;
	typedef bool (*SdFn)(BA&, int, unsigned);
	typedef bool (*SsFn)(BA&, int);
	typedef bool (*DsFn)(BA&, Short, Short, int);
	enum { UC = BA::UNIT_COUNT };
	std::vector<SdFn> sd;  // [u * (N + 1) + w]
	std::vector<SsFn> ss;  // [(u * (N + 1) + w) * N + i]
	DsFn ds[N];
	ViewTab() : sd(UC * (N + 1), (SdFn) 0), ss(UC * (N + 1) * N, (SsFn) 0) {}
	static size_t uw(unsigned u, unsigned w) { return u * (N + 1) + w; }
};

template <unsigned N, unsigned I, bool End = (I >= N)>
struct FillDS { static void go(ViewTab<N>& t) { t.ds[I] = &dsOp<N, (Short) I>; FillDS<N, I + 1>::go(t); } };
template <unsigned N, unsigned I>
struct FillDS<N, I, true> { static void go(ViewTab<N>&) {} };

template <unsigned N, unsigned U, unsigned W, unsigned I, bool End = (I >= W)>
struct FillSS {
	static void go(ViewTab<N>& t) {
		t.ss[ViewTab<N>::uw(U, W) * N + I] = &ssOp<N, (Short) U, (Short) W, (Short) I>;
		FillSS<N, U, W, I + 1>::go(t);
	}
};
template <unsigned N, unsigned U, unsigned W, unsigned I>
struct FillSS<N, U, W, I, true> { static void go(ViewTab<N>&) {} };

template <unsigned N, unsigned U, unsigned W, bool End = (8 * U + W > N)>
struct FillW {
	static void go(ViewTab<N>& t) {
		t.sd[ViewTab<N>::uw(U, W)] = &sdOp<N, (Short) U, (Short) W>;
		FillSS<N, U, W, 0, !ssIncluded(N, U, W)>::go(t);
		FillW<N, U, W + 1>::go(t);
	}
};
template <unsigned N, unsigned U, unsigned W>
struct FillW<N, U, W, true> { static void go(ViewTab<N>&) {} };

template <unsigned N, unsigned U, bool End = (8 * U + 1 > N)>
struct FillU { static void go(ViewTab<N>& t) { FillW<N, U, 1>::go(t); FillU<N, U + 1>::go(t); } };
template <unsigned N, unsigned U>
struct FillU<N, U, true> { static void go(ViewTab<N>&) {} };

template <unsigned N>
struct ViewCheck {
	typedef BitArrayT<N> BA;
	typedef ArrayCheck<N> AC;
	typedef typename BA::Index Index;
	enum { UC = BA::UNIT_COUNT };

	struct PState { uint64_t raw; uint64_t model; int hist; std::string ops; bool mutate; };

	BA* place[3];  // 0: ends at a PROT_NONE page | 1: starts right after a PROT_NONE page | 2: exactly-sized malloc block
	ViewTab<N> tab;
	uint64_t FULL;
	long localCases;

	static const char* placeName(int p) { return p == 0 ? "object ends at a guard page" : p == 1 ? "object starts after a guard page" : "exact malloc block"; }

	ViewCheck() {
		long ps = 0;
		uint8_t* data = guard::page(ps);
		place[0] = new (data + ps - sizeof(BA)) BA;
		place[1] = new (data) BA;
		place[2] = new (std::malloc(sizeof(BA))) BA;
		FULL = N == 64 ? ~0ULL : ((1ULL << (N & 63)) - 1);
		FillDS<N, 0>::go(tab);
		FillU<N, 0>::go(tab);
		localCases = 0;
	}

	bool available(int form, unsigned u, unsigned w, int op, unsigned i) const {
		const bool indexed = op == V_GET || op == V_CGET || op == V_SET || op == V_CLR;
		switch (form) {
		case F_DD: return true;
		case F_SD: return tab.sd[ViewTab<N>::uw(u, w)] != 0;
		case F_DS: return indexed && (op != V_CGET || CBITS_STATIC_GET);
		case F_SS: return indexed && (op != V_CGET || CBITS_STATIC_GET) && tab.ss[ViewTab<N>::uw(u, w) * N + i] != 0;
		}
		return false;
	}
	bool call(int form, BA& a, unsigned u, unsigned w, int op, unsigned i) const {
		switch (form) {
		case F_DD: return ddOp<N>(a, (Short) u, (Short) w, op, i);
		case F_SD: return tab.sd[ViewTab<N>::uw(u, w)](a, op, i);
		case F_DS: return tab.ds[i](a, (Short) u, (Short) w, op);
		case F_SS: return tab.ss[ViewTab<N>::uw(u, w) * N + i](a, op);
		}
		return false;
	}
	// false when the call touched a guard page
	bool exec(int form, int pl, unsigned u, unsigned w, int op, unsigned i, bool& out) const {
		BA& a = *place[pl];
		if (pl == 2) { out = call(form, a, u, w, op, i); return true; }
		const ViewCheck* self = this;
		bool* o = &out;
		return guard::run([=, &a]() { *o = self->call(form, a, u, w, op, i); });
	}

	std::string replay(int form, unsigned u, unsigned w, int op, unsigned i, const PState& P, int pl) const {
		const AC& ac = AC::inst();
		return "{\"harness\":\"c18_bits\",\"area\":\"view\",\"N\":" + vt::str(N) + ",\"unit\":" + vt::str(u) + ",\"width\":" + vt::str(w) + ",\"form\":\"" + F_NAME[form] +
			   "\",\"class\":\"" + V_CLASS[op] + "\",\"op\":\"" + V_CALL[op] + "\",\"index\":" + vt::str(i) + ",\"placement\":\"" + placeName(pl) + "\",\"parent_members\":" +
			   membersJson(P.model) + ",\"parent_ops\":" + (P.hist >= 0 ? ac.histJson(P.hist) : P.ops) + "}";
	}
	std::string what(int form, unsigned u, unsigned w, int op, unsigned i) const {
		return "BitArrayT<" + vt::str(N) + ">::" + V_CLASS[op] + " view (unit " + vt::str(u) + ", width " + vt::str(w) + ") " + V_CALL[op] +
			   ((op == V_GET || op == V_CGET || op == V_SET || op == V_CLR) ? " i=" + vt::str(i) : "") + " [" + F_NAME[form] + "]";
	}
	void fault(int form, int pl, unsigned u, unsigned w, int op, unsigned i, const PState& P) const {
		const bool write = op == V_SET || op == V_CLR || op == V_CLRALL;
		const std::string fp = std::string("view/") + V_NAME[op] + (pl == 0 ? (write ? "-overrun" : "-overread") : (write ? "-underrun" : "-underread"));
		violate(fp, [&]() {
			return std::make_pair(what(form, u, w, op, i) + " accesses memory " + (pl == 0 ? "past the end" : "before the start") + " of the " + vt::str(sizeof(BA)) +
									  "-byte parent object (" + placeName(pl) + "; parent members " + membersJson(P.model) + ")",
								  replay(form, u, w, op, i, P, pl));
		});
	}

	void testView(unsigned u, unsigned w) {
		const AC& ac = AC::inst();
		uint64_t R = 0;
		for (unsigned i = 0; i < w; ++i) R |= 1ULL << (8 * u + i);
		// parent contents
		std::vector<PState> ps;
		const bool allStates = N <= 10 || (g_thorough && N <= 33);
		const bool mutateAll = N <= 10 || (g_thorough && N <= 17);
		for (size_t s = 0; s < ac.states.size(); ++s) {
			const uint64_t m = ac.states[s].model;
			if (!allStates && !ac.isCore(m)) continue;
			PState p = {ac.states[s].raw, m, (int) s, "", mutateAll || m == 0 || m == FULL};
			ps.push_back(p);
		}
		for (int inside = 0; inside < 2; ++inside) {  // exactly the range / exactly everything but the range, built with parent ops
			BA* a = new (place[2]) BA;
			std::string ops = "[";
			uint64_t m = 0;
			for (unsigned j = 0; j < N; ++j)
				if ((((R >> j) & 1) != 0) == (inside != 0)) { a->set((Index) j); m |= 1ULL << j; ops += std::string(ops.size() > 1 ? "," : "") + "\"set(" + vt::str(j) + ")\""; }
			PState p = {AC::rawOf(*a), m, -1, ops + "]", true};
			ps.push_back(p);
		}
		const bool ntView = w % 8 == 0 || 8 * u + w == 8 * UC || w > 8;
		for (int form = 0; form < F_COUNT; ++form) {
			if (ntView) {
				for (int op = 0; op < V_COUNT; ++op)
					for (unsigned i = 0; i < ((op == V_BOOL || op == V_CBOOL || op == V_CLRALL) ? 1u : w); ++i)
						if (available(form, u, w, op, i)) nontrivial(ckey(3, N, u, w, (uint64_t) form, (uint64_t) op, i));
			}
			for (size_t pi = 0; pi < ps.size(); ++pi) {
				const PState& P = ps[pi];
				++localCases;
				// ---- reads
				bool faulted[V_COUNT][64];
				memset(faulted, 0, sizeof faulted);
				for (int pl = 0; pl < 3; ++pl) {
					BA& a = *place[pl];
					AC::restore(a, P.raw);
					for (int op = V_BOOL; op <= V_CGET; ++op) {
						const bool indexed = op == V_GET || op == V_CGET;
						for (unsigned i = 0; i < (indexed ? w : 1u); ++i) {
							if (!indexed && form >= F_DS) continue;  // no index involved: covered by F_DD / F_SD
							if (!available(form, u, w, op, i)) continue;
							if (pl == 2 && faulted[op][i]) { ++g_heapSkipped; continue; }
							bool got = false;
							if (!exec(form, pl, u, w, op, i, got)) { faulted[op][i] = true; fault(form, pl, u, w, op, i, P); continue; }
							const bool expected = indexed ? ((P.model >> (8 * u + i)) & 1) != 0 : (P.model & R) != 0;
							++g_eval; ++g_viewEvals;
							if (got != expected)
								violate(std::string("view/") + V_NAME[op], [&]() {
									return std::make_pair(what(form, u, w, op, i) + " = " + vt::str(got) + ", expected " + vt::str(expected) + " (parent members " + membersJson(P.model) + ")",
														  replay(form, u, w, op, i, P, pl));
								});
						}
					}
					if (AC::rawOf(a) != P.raw)
						violate("view/read-modifies", [&]() { return std::make_pair(what(form, u, w, V_GET, 0) + ": reading through a view modified the parent", replay(form, u, w, V_GET, 0, P, pl)); });
				}
				if (!P.mutate) continue;
				// ---- writes
				for (int op = V_SET; op <= V_CLRALL; ++op) {
					const bool indexed = op != V_CLRALL;
					if (!indexed && form >= F_DS) continue;
					for (unsigned i = 0; i < (indexed ? w : 1u); ++i) {
						if (!available(form, u, w, op, i)) continue;
						const uint64_t bit = 1ULL << (8 * u + i);
						const uint64_t expected = op == V_SET ? (P.model | bit) : op == V_CLR ? (P.model & ~bit) : (P.model & ~R);
						bool f = false;
						for (int pl = 0; pl < 3; ++pl) {
							if (pl == 2 && f) { ++g_heapSkipped; continue; }
							BA& a = *place[pl];
							AC::restore(a, P.raw);
							bool dummy = false;
							if (!exec(form, pl, u, w, op, i, dummy)) { f = true; fault(form, pl, u, w, op, i, P); continue; }
							const uint64_t got = AC::obs(a);
							++g_eval; ++g_viewEvals;
							if (got == expected) continue;
							std::string fp = std::string("view/") + V_NAME[op];
							if (op == V_CLRALL && (got & R) == 0 && (got & ~R) != (P.model & ~R)) fp = "view/clear-all-outside-range";
							violate(fp, [&]() {
								return std::make_pair(what(form, u, w, op, i) + " leaves parent members " + membersJson(got) + ", expected " + membersJson(expected) + " (before: " +
														  membersJson(P.model) + "; the view addresses indices " + vt::str(8 * u) + ".." + vt::str(8 * u + w - 1) + ")",
													  replay(form, u, w, op, i, P, pl));
							});
						}
					}
				}
			}
		}
		checkAsserts("view", "{\"N\":" + vt::str(N) + ",\"unit\":" + vt::str(u) + ",\"width\":" + vt::str(w) + "}");
		if (N == 16 && u == 1 && w == 8 && g_samples.size() < 4) {
			const PState& P = ps[ps.size() - 1];
			g_samples.push_back("{\"area\":\"view\",\"N\":16,\"unit\":1,\"width\":8,\"parent_members\":" + membersJson(P.model) +
								",\"checked\":\"operator bool (Bits, CBits), get(i)/set(i)/clear(i) for i<8 in 4 forms, clear(), on 3 placements of the parent\"}");
		}
	}

	static ViewCheck& inst() { static ViewCheck c; return c; }

	void run() {
		long views = 0;
		for (unsigned u = 0; 8 * u < N; ++u)
			for (unsigned w = 1; 8 * u + w <= N; ++w) { testView(u, w); ++views; }
		g_viewCases += localCases;
		printf("{\"type\":\"sub\",\"object\":\"BitArrayT<%u> views\",\"views\":%ld,\"cases\":%ld}\n", N, views, localCases);
	}
};

template <unsigned N>
static void runN() {
	ArrayCheck<N>::inst().run();
	ViewCheck<N>::inst().run();
}

// ====================================================================================================================
// StreamBufferT / BitWriteStreamT / BitReadStreamT
// ====================================================================================================================

struct Field { int w; uint32_t v; };
struct SCase { const char* mode; int start; int n; Field f[6]; };

static std::string fieldsJson(const SCase& c) {
	std::string s = "[";
	for (int k = 0; k < c.n; ++k) s += std::string(k ? "," : "") + "[" + vt::str(c.f[k].w) + "," + vt::str(c.f[k].v) + "]";
	return s + "]";
}

template <Long Cap, Short W, bool Fits = (W <= Cap)>
struct WR {
	static void write(BitWriteStreamT<Cap>& s, uint32_t v) { s.template write<W>((UBitWidth<W>) v); }
	static uint32_t read(BitReadStreamT<Cap>& s) { return (uint32_t) s.template read<W>(); }
};
template <Long Cap, Short W>
struct WR<Cap, W, false> {
	static void write(BitWriteStreamT<Cap>&, uint32_t) { std::abort(); }
	static uint32_t read(BitReadStreamT<Cap>&) { std::abort(); }
};

#define VT_WIDTHS(X) X(1) X(2) X(3) X(4) X(5) X(6) X(7) X(8) X(9) X(10) X(11) X(12) X(13) X(14) X(15) X(16) X(17) X(18) X(19) X(20) X(21) X(22) X(23) X(24) X(25) X(26) X(27) X(28) X(29) X(30) X(31) X(32)

template <Long Cap>
struct StreamRt {
	typedef StreamBufferT<Cap> Buf;
	typedef BitWriteStreamT<Cap> WS;
	typedef BitReadStreamT<Cap> RS;
	enum { BYTES = Buf::BYTE_COUNT };

	static void write(WS& s, int w, uint32_t v) {
		switch (w) {
#define X(W) case W: WR<Cap, W>::write(s, v); break;
			VT_WIDTHS(X)
#undef X
		}
	}
	static uint32_t read(RS& s, int w) {
		switch (w) {
#define X(W) case W: return WR<Cap, W>::read(s);
			VT_WIDTHS(X)
#undef X
		}
		return 0;
	}
	static Buf* heapBuf() {
		static Buf* b = 0;
		if (!b) b = new (std::malloc(sizeof(Buf))) Buf;  // exactly-sized heap block
		return b;
	}
	static std::string replay(const SCase& c) {
		return "{\"harness\":\"c18_bits\",\"area\":\"stream\",\"capacity_bits\":" + vt::str((long) Cap) + ",\"mode\":\"" + c.mode + "\",\"start_cursor\":" + vt::str(c.start) +
			   ",\"fields_width_value\":" + fieldsJson(c) + "}";
	}
	static void fail(const char* clause, const std::string& msg, const SCase& c) {
		violate(std::string("stream/") + clause, [&]() { return std::make_pair("stream<" + vt::str((long) Cap) + "> " + c.mode + " start " + vt::str(c.start) + " fields " + fieldsJson(c) + ": " + msg, replay(c)); });
	}
	static inline bool bitOf(const uint8_t* d, long bit) { return (d[bit >> 3] >> (bit & 7)) & 1; }

	static void run(const SCase& c) {
		Buf& b = *heapBuf();
		uint8_t* d = b.data();
		std::memset(d, 0xA5, BYTES);
		WS ws(b, (Long) c.start);
		uint8_t snap[BYTES], ref[BYTES];
		std::memcpy(snap, d, BYTES);  // what the writer starts from
		std::memcpy(ref, d, BYTES);   // independent reference bit vector (LSB-first layout; only its outside-the-fields part is an oracle)
		long cur = c.start;
		++g_streamTrips;
		++g_eval; ++g_streamEvals;
		if ((long) ws.cursor() != cur) fail("write-cursor", "new writer reports cursor " + vt::str((long) ws.cursor()), c);
		for (int k = 0; k < c.n; ++k) {
			write(ws, c.f[k].w, c.f[k].v);
			for (int t = 0; t < c.f[k].w; ++t) {
				const long bit = cur + t;
				const uint8_t m = (uint8_t) (1u << (bit & 7));
				if ((c.f[k].v >> t) & 1) ref[bit >> 3] |= m; else ref[bit >> 3] &= (uint8_t) ~m;
			}
			cur += c.f[k].w;
			++g_eval; ++g_streamEvals;
			if ((long) ws.cursor() != cur) fail("write-cursor", "after writing field " + vt::str(k) + " the cursor is " + vt::str((long) ws.cursor()) + ", expected " + vt::str(cur), c);
		}
		++g_eval; ++g_streamEvals;
		if (std::memcmp(d, ref, BYTES) != 0) {
			bool inside = false;
			for (long bit = 0; bit < 8L * BYTES; ++bit) {
				if (bit >= c.start && bit < cur) { inside = inside || bitOf(d, bit) != bitOf(ref, bit); continue; }
				if (bitOf(d, bit) != bitOf(snap, bit)) {
					fail(bit < c.start ? "write-before" : "write-beyond", "bit " + vt::str(bit) + " outside the written range [" + vt::str(c.start) + "," + vt::str(cur) + ") was modified", c);
					break;
				}
			}
			if (inside) ++g_layoutMismatch;  // layout is not promised: informational only
		}
		uint8_t after[BYTES];
		std::memcpy(after, d, BYTES);
		RS rs(b, (Long) c.start);
		cur = c.start;
		long lastStart = c.start;
		for (int k = 0; k < c.n; ++k) {
			const uint32_t v = read(rs, c.f[k].w);
			lastStart = cur;
			cur += c.f[k].w;
			g_eval += 2; g_streamEvals += 2;
			if (v != c.f[k].v) fail("roundtrip", "field " + vt::str(k) + " (width " + vt::str(c.f[k].w) + ") read back as " + vt::str(v) + ", written " + vt::str(c.f[k].v), c);
			if ((long) rs.cursor() != cur) fail("read-cursor", "after reading field " + vt::str(k) + " the cursor is " + vt::str((long) rs.cursor()) + ", expected " + vt::str(cur), c);
		}
		{
			RS rs2(b, (Long) lastStart);  // a reader positioned directly at the last field
			const uint32_t v = read(rs2, c.f[c.n - 1].w);
			++g_eval; ++g_streamEvals;
			if (v != c.f[c.n - 1].v || (long) rs2.cursor() != cur) fail("roundtrip", "reader constructed at cursor " + vt::str(lastStart) + " reads the last field as " + vt::str(v), c);
		}
		if (std::memcmp(d, after, BYTES) != 0) fail("read-modifies", "reading modified the buffer", c);
	}
};

typedef void (*RunFn)(const SCase&);
static const unsigned MAX_CAP = 112;
static RunFn g_run[MAX_CAP + 1];
constexpr bool capIncluded(unsigned cap) { return cap <= 48 || cap % 8 == 0; }
template <unsigned Cap, bool Inc = capIncluded(Cap)>
struct RegCap { static void go() { g_run[Cap] = &StreamRt<(Long) Cap>::run; } };
template <unsigned Cap>
struct RegCap<Cap, false> { static void go() {} };
template <unsigned Cap, bool End = (Cap > MAX_CAP)>
struct FillCap { static void go() { RegCap<Cap>::go(); FillCap<Cap + 1>::go(); } };
template <unsigned Cap>
struct FillCap<Cap, true> { static void go() {} };
static inline unsigned capFor(unsigned total) { return total <= 48 ? total : (total + 7) / 8 * 8; }

static inline uint32_t ones(int w) { return w >= 32 ? 0xFFFFFFFFu : ((1u << w) - 1); }

static void valuesFor(int w, int exhaustUpTo, std::vector<uint32_t>& out) {
	out.clear();
	if (w <= exhaustUpTo) { for (uint32_t v = 0; v <= ones(w); ++v) { out.push_back(v); if (v == 0xFFFFFFFFu) break; } return; }
	out.push_back(0); out.push_back(ones(w));
	for (int k = 0; k < w; ++k) out.push_back(1u << k);
	out.push_back(0x55555555u & ones(w)); out.push_back(0xAAAAAAAAu & ones(w));
	std::sort(out.begin(), out.end());
	out.erase(std::unique(out.begin(), out.end()), out.end());
}
static void walkFor(int w, std::vector<uint32_t>& out) {
	out.clear();
	out.push_back(0);
	for (int k = 0; k < w; ++k) out.push_back(1u << k);
	if (w > 1) out.push_back(ones(w));
}

static void runCase(const SCase& c) {
	unsigned total = (unsigned) c.start;
	bool straddles = false;
	for (int k = 0; k < c.n; ++k) {
		if ((total % 8) + (unsigned) c.f[k].w > 8 && k >= (c.mode[0] == 'p' ? 1 : 0)) straddles = true;
		total += (unsigned) c.f[k].w;
	}
	if (straddles) {
		uint64_t h = ckey(4, (uint64_t) c.mode[0], (uint64_t) c.start, (uint64_t) c.n);
		for (int k = 0; k < c.n; ++k) h = ckey(h, (uint64_t) c.f[k].w, c.f[k].v);
		nontrivial(h);
	}
	const unsigned cap = c.mode[0] == 'e' ? total : capFor(total);
	g_run[cap](c);
}

static void streams() {
	FillCap<1>::go();
	std::vector<uint32_t> vals, v1s, v2s, v3s;
	const int exhaust = g_thorough ? 16 : 12;
	// single field at every alignment: "prefix": an A-bit field first; "cursor": writer/reader constructed at cursor A;
	// "exact": no sentinel, the last write ends exactly at BIT_CAPACITY
	for (int A = 0; A < 8; ++A)
		for (int W = 1; W <= 32; ++W) {
			valuesFor(W, exhaust, vals);
			for (size_t vi = 0; vi < vals.size(); ++vi)
				for (int variant = 0; variant < 2; ++variant) {
					const uint32_t pre = variant ? 0 : ones(A), sent = variant ? 2 : 5;
					SCase c;
					c.mode = "prefix-field"; c.start = 0; c.n = 0;
					if (A) { c.f[c.n].w = A; c.f[c.n].v = pre; ++c.n; }
					c.f[c.n].w = W; c.f[c.n].v = vals[vi]; ++c.n;
					c.f[c.n].w = 3; c.f[c.n].v = sent; ++c.n;
					runCase(c);
					if (A) {
						SCase d;
						d.mode = "cursor-start"; d.start = A; d.n = 2;
						d.f[0].w = W; d.f[0].v = vals[vi];
						d.f[1].w = 3; d.f[1].v = sent;
						runCase(d);
					}
					if (W > exhaust || vals[vi] == 0 || vals[vi] == ones(W)) {
						SCase e;
						e.mode = "exact-fill"; e.start = 0; e.n = 0;
						if (A) { e.f[e.n].w = A; e.f[e.n].v = pre; ++e.n; }
						e.f[e.n].w = W; e.f[e.n].v = vals[vi]; ++e.n;
						runCase(e);
					}
					if (g_samples.size() < 6 && A == 5 && W == 13 && vals[vi] == 0x1555 && variant == 0)
						g_samples.push_back("{\"area\":\"stream\",\"mode\":\"prefix-field\",\"capacity_bits\":21,\"fields_width_value\":" + fieldsJson(c) + ",\"checked\":\"cursor after each write/read, values read back, bits outside the fields untouched\"}");
				}
			checkAsserts("stream", "{\"alignment\":" + vt::str(A) + ",\"width\":" + vt::str(W) + "}");
		}
	printf("{\"type\":\"sub\",\"object\":\"stream singles\",\"roundtrips\":%ld}\n", g_streamTrips);
	// all ordered pairs of widths, walking-one values, every alignment
	for (int A = 0; A < 8; ++A)
		for (int W1 = 1; W1 <= 32; ++W1) {
			walkFor(W1, v1s);
			for (int W2 = 1; W2 <= 32; ++W2) {
				walkFor(W2, v2s);
				for (size_t i = 0; i < v1s.size(); ++i)
					for (size_t j = 0; j < v2s.size(); ++j) {
						SCase c;
						c.mode = "prefix-field pair"; c.start = 0; c.n = 0;
						if (A) { c.f[c.n].w = A; c.f[c.n].v = ones(A); ++c.n; }
						c.f[c.n].w = W1; c.f[c.n].v = v1s[i]; ++c.n;
						c.f[c.n].w = W2; c.f[c.n].v = v2s[j]; ++c.n;
						c.f[c.n].w = 3; c.f[c.n].v = 5; ++c.n;
						runCase(c);
					}
			}
			checkAsserts("stream", "{\"alignment\":" + vt::str(A) + ",\"pair_first_width\":" + vt::str(W1) + "}");
		}
	printf("{\"type\":\"sub\",\"object\":\"stream pairs\",\"roundtrips\":%ld}\n", g_streamTrips);
	if (g_thorough) {
		static const int R[] = {1, 3, 7, 8, 9, 16, 17, 32};
		const int RN = (int) (sizeof R / sizeof R[0]);
		for (int A = 0; A < 8; ++A)
			for (int a = 0; a < RN; ++a)
				for (int b = 0; b < RN; ++b)
					for (int cc = 0; cc < RN; ++cc) {
						const int W[3] = {R[a], R[b], R[cc]};
						std::vector<uint32_t> vs[3];
						for (int k = 0; k < 3; ++k) {
							vs[k].push_back(0); vs[k].push_back(ones(W[k])); vs[k].push_back(1); vs[k].push_back(1u << (W[k] - 1)); vs[k].push_back(0x55555555u & ones(W[k]));
							std::sort(vs[k].begin(), vs[k].end());
							vs[k].erase(std::unique(vs[k].begin(), vs[k].end()), vs[k].end());
						}
						for (size_t i = 0; i < vs[0].size(); ++i)
							for (size_t j = 0; j < vs[1].size(); ++j)
								for (size_t k = 0; k < vs[2].size(); ++k) {
									SCase c;
									c.mode = "prefix-field triple"; c.start = 0; c.n = 0;
									if (A) { c.f[c.n].w = A; c.f[c.n].v = ones(A); ++c.n; }
									c.f[c.n].w = W[0]; c.f[c.n].v = vs[0][i]; ++c.n;
									c.f[c.n].w = W[1]; c.f[c.n].v = vs[1][j]; ++c.n;
									c.f[c.n].w = W[2]; c.f[c.n].v = vs[2][k]; ++c.n;
									c.f[c.n].w = 3; c.f[c.n].v = 5; ++c.n;
									runCase(c);
								}
					}
		checkAsserts("stream", "{\"phase\":\"triples\"}");
		printf("{\"type\":\"sub\",\"object\":\"stream triples\",\"roundtrips\":%ld}\n", g_streamTrips);
	}
}

// ---- buffer comparison / clear ---------------------------------------------------------------------------------------

template <Long Cap>
static void bufferCheck() {
	typedef StreamBufferT<Cap> Buf;
	enum { BYTES = Buf::BYTE_COUNT };
	Buf* a = new (std::malloc(sizeof(Buf))) Buf();
	Buf* b = new (std::malloc(sizeof(Buf))) Buf();
	Buf* z = new (std::malloc(sizeof(Buf))) Buf();
	struct L {
		static void fail(const char* clause, const std::string& msg, int pattern, long bit, int byte, int delta) {
			violate(std::string("buffer/") + clause, [&]() {
				return std::make_pair("StreamBufferT<" + vt::str((long) Cap) + ">: " + msg,
									  "{\"harness\":\"c18_bits\",\"area\":\"buffer\",\"capacity_bits\":" + vt::str((long) Cap) + ",\"pattern\":" + vt::str(pattern) + ",\"flipped_bit\":" + vt::str(bit) +
										  ",\"changed_byte\":" + vt::str(byte) + ",\"xor\":" + vt::str(delta) + "}");
			});
		}
	};
	for (int pattern = 0; pattern < 4; ++pattern) {
		for (int k = 0; k < BYTES; ++k) {
			const uint8_t v = pattern == 0 ? 0 : pattern == 1 ? 0xFF : pattern == 2 ? 0x5A : (uint8_t) (k * 37 + 11);
			a->data()[k] = v;
			b->data()[k] = v;
		}
		g_eval += 4; g_bufEvals += 4;
		if (!(*a == *b) || !(*b == *a)) L::fail("eq", "operator== is false for equal contents", pattern, -1, -1, 0);
		if ((*a != *b) || (*b != *a)) L::fail("neq", "operator!= is true for equal contents", pattern, -1, -1, 0);
		if (!(*a == *a) || (*a != *a)) L::fail("eq", "a buffer does not compare equal to itself", pattern, -1, -1, 0);
		for (long bit = 0; bit < (long) Cap; ++bit) {
			b->data()[bit >> 3] ^= (uint8_t) (1u << (bit & 7));
			g_eval += 4; g_bufEvals += 4;
			if ((*a == *b) || (*b == *a)) L::fail("eq", "operator== is true although bit " + vt::str(bit) + " differs", pattern, bit, -1, 0);
			if (!(*a != *b) || !(*b != *a)) L::fail("neq", "operator!= is false although bit " + vt::str(bit) + " differs", pattern, bit, -1, 0);
			b->data()[bit >> 3] ^= (uint8_t) (1u << (bit & 7));
		}
		static const int few[] = {1, 0x80, 0xFF, 0x55, 0x18};
		for (int k = 0; k < (int) (Cap / 8); ++k) {
			const int nd = Cap <= 17 ? 255 : (int) (sizeof few / sizeof few[0]);
			for (int di = 0; di < nd; ++di) {
				const int delta = Cap <= 17 ? di + 1 : few[di];
				b->data()[k] ^= (uint8_t) delta;
				g_eval += 2; g_bufEvals += 2;
				if (*a == *b) L::fail("eq", "operator== is true although byte " + vt::str(k) + " differs", pattern, -1, k, delta);
				if (!(*a != *b)) L::fail("neq", "operator!= is false although byte " + vt::str(k) + " differs", pattern, -1, k, delta);
				b->data()[k] ^= (uint8_t) delta;
			}
		}
		// clear(): afterwards no bit is set and the buffer equals a value-initialised one
		b->clear();
		bool zero = true;
		for (int k = 0; k < BYTES; ++k) zero = zero && b->data()[k] == 0;
		g_eval += 2; g_bufEvals += 2;
		if (!zero) L::fail("clear", "clear() left bits set", pattern, -1, -1, 0);
		if (!(*b == *z) || (*b != *z)) L::fail("clear", "a cleared buffer differs from a new one", pattern, -1, -1, 0);
	}
	if (Cap % 8 != 0) nontrivial(ckey(5, (uint64_t) Cap));
	checkAsserts("buffer", "{\"capacity_bits\":" + vt::str((long) Cap) + "}");
	std::free(a); std::free(b); std::free(z);
}

// ====================================================================================================================

int main(int argc, char** argv) {
	g_thorough = argc > 1 && std::string(argv[1]) == "thorough";
	guard::install();
	runN<1>(); runN<2>(); runN<3>(); runN<4>(); runN<5>(); runN<6>(); runN<7>(); runN<8>(); runN<9>(); runN<10>();
	runN<11>(); runN<12>(); runN<13>(); runN<14>(); runN<15>(); runN<16>(); runN<17>();
	runN<24>(); runN<31>(); runN<32>(); runN<33>(); runN<64>();
	streams();
	bufferCheck<1>(); bufferCheck<7>(); bufferCheck<8>(); bufferCheck<9>(); bufferCheck<16>(); bufferCheck<17>();
	bufferCheck<32>(); bufferCheck<33>(); bufferCheck<64>(); bufferCheck<100>();
	if (g_samples.size() < 8)
		g_samples.push_back("{\"area\":\"buffer\",\"capacity_bits\":33,\"checked\":\"== and != for equal contents, every single-bit flip below bit 33, byte changes, clear()\"}");

	std::sort(g_nt.begin(), g_nt.end());
	const long distinct = (long) (std::unique(g_nt.begin(), g_nt.end()) - g_nt.begin());
	std::string samples = "[";
	for (size_t i = 0; i < g_samples.size(); ++i) samples += (i ? "," : "") + g_samples[i];
	samples += "]";
	std::string counts = "{";
	for (std::map<std::string, long>::const_iterator it = vt::rep().perFingerprint.begin(); it != vt::rep().perFingerprint.end(); ++it)
		counts += std::string(counts.size() > 1 ? "," : "") + "\"" + vt::jesc(it->first) + "\":" + vt::str(it->second);
	counts += "}";
	printf("{\"type\":\"summary\",\"evaluations\":%ld,\"distinct_nontrivial\":%ld,\"array_states\":%ld,\"array_unary_evals\":%ld,\"array_pair_evals\":%ld,"
		   "\"view_cases\":%ld,\"view_evals\":%ld,\"stream_roundtrips\":%ld,\"stream_evals\":%ld,\"buffer_evals\":%ld,\"guard_page_faults_caught\":%ld,"
		   "\"heap_calls_skipped_after_fault\":%ld,\"stream_layout_differs_from_lsb_first\":%ld,\"cbits_static_get_tested\":%d,\"violations\":%ld,"
		   "\"violation_counts\":%s,\"samples\":%s}\n",
		   g_eval, distinct, g_arrStates, g_arrEvals, g_pairEvals, g_viewCases, g_viewEvals, g_streamTrips, g_streamEvals, g_bufEvals, guard::faults, g_heapSkipped,
		   g_layoutMismatch, CBITS_STATIC_GET ? 1 : 0, vt::rep().violations, counts.c_str(), samples.c_str());
	return 0;
}
