// C12: utility (utilize) and weighted-random (randomize) selection pick the right sub-state for all inputs.
//
// The states of every machine read rank()/utility() from tables in the context, the generator is a scripted object
// that returns the next value of a list and counts the calls. One fresh instance per history (construction is cheap),
// so that a broken outcome ("nothing selected") cannot contaminate the next case.
//
//   c12_utility quick|thorough
//   c12_utility replay <machine> <target id> <utilize|randomize|change> <exact|rounding> <ranks,csv> <utilities,csv (hex floats)> <steps ;-separated>
//        steps:  Q:<r>,<r>,...   the request, generator scripted with these outputs (the last one repeats)
//                I               immediateChangeTo(idle)
//                C:<id>          immediateChangeTo(id)           (set-up only, not checked against the property)
//
// Machines (state ids = depth-first numbers, checked with static_assert against FSM::stateId):
//   flat2..flat5   Root<0; idle 1; Utilitarian<2; w leaves>; Random<3+w; w leaves>>
//   nestR / nestU  Root<0; idle 1; Random|Utilitarian<2; leaf 3; Composite<4;5,6>; Resumable<7;8,9>;
//                       Orthogonal<10; 11, Utilitarian<12;13,14>>; Utilitarian<15;16,17>; Random<18;19,20>>>
//   orthoC         Root<0; idle 1; Composite<2; leaf 3; Orthogonal<4; Random<5;6,7,8>, Utilitarian<9;10,11,12>, 13, 14>>>
//   orthoL         Root<0; idle 1; Utilitarian<2; leaf 3; Orthogonal<4; 5, Composite<6;7,8>>; Orthogonal<9; Utilitarian<10;11,12>, Resumable<13;14,15>>; 16>>
// Only headed regions with user-defined heads.
//
// Oracles
//   EXACT domain (ranks in {-1,0,1}, utilities small dyadic rationals, r = k/64): every float operation of the library
//   is exact, the expected configuration is computed in integer (dyadic rational) arithmetic by Model<Q>: strict equality.
//   ROUNDING domain (flat regions, utilities from {0, 2^-24, 0.1, 1/3, 1, 3, 1e10, 2*FLT_MIN}, plus sampled vectors with
//   full 24-bit mantissas): hard rules (something is selected, it has the top rank, its utility is > 0, one generator
//   call) and the tolerant interval rule (the exact answer, computed in long double, or a neighbour when r*sum is within
//   4 ulp(sum) of the common boundary). r: 0, 2^-24, 0.5, 1-2^-23, 1-2^-24 and, per cumulative boundary, the float
//   nearest to boundary/sum and its two neighbours.
//
// A walk that falls off the end of C_::resolveRandom leaves the region active without an active sub-state:
// fingerprint random/none-selected (the HFSM2_BREAK() it reaches is counted through the hook and folded into it).
#define HFSM2_ENABLE_UTILITY_THEORY
#ifdef VT_ASSERT
#define HFSM2_ENABLE_ASSERT
#endif
#ifdef VT_DEV_HEADER
#include <hfsm2/machine_dev.hpp>
#else
#include <hfsm2/machine.hpp>
#endif
#include "harness/common.hpp"
#include <algorithm>
#include <cfloat>
#include <cinttypes>
#include <cmath>
#include <cstdint>

// ==== machines ==========================================================================================

static const int MAXS = 24;     // states per machine (upper bound)
static const int MAXW = 6;      // region width (upper bound)
static const int MAXDRAW = 6;   // scripted generator outputs per request
static const int INVALID = 255; // hfsm2::INVALID_PRONG

struct Env {
	signed char rank[MAXS];
	float util[MAXS];
};

struct ScriptRng {
	const float* v = nullptr;
	int n = 0;
	int calls = 0;
	float next() noexcept {
		const float r = n > 0 ? v[calls < n ? calls : n - 1] : 0.0f;
		++calls;
		return r;
	}
};

using Config = hfsm2::Config::ContextT<Env&>::RandomT<ScriptRng>;
using M = hfsm2::MachineT<Config>;

enum Kind : int { LEAF, COMPOSITE, RESUMABLE, UTILITARIAN, RANDOM, ORTHO };
static const char* const KIND_NAME[] = {"leaf", "Composite", "Resumable", "Utilitarian", "Random", "Orthogonal"};

// compile-time description of a structure: one source for the machine type and for the run-time tree of the oracle
template <int I> struct Lf {};
template <Kind K, int H, typename... C> struct Rg {};

template <int MID, int I> struct St;  // the state types

template <int MID, typename D> struct ToFsm;
template <int MID, int I> struct ToFsm<MID, Lf<I>> { using type = St<MID, I>; };
template <int MID, int H, typename... C> struct ToFsm<MID, Rg<COMPOSITE, H, C...>> { using type = M::Composite<St<MID, H>, typename ToFsm<MID, C>::type...>; };
template <int MID, int H, typename... C> struct ToFsm<MID, Rg<RESUMABLE, H, C...>> { using type = M::Resumable<St<MID, H>, typename ToFsm<MID, C>::type...>; };
template <int MID, int H, typename... C> struct ToFsm<MID, Rg<UTILITARIAN, H, C...>> { using type = M::Utilitarian<St<MID, H>, typename ToFsm<MID, C>::type...>; };
template <int MID, int H, typename... C> struct ToFsm<MID, Rg<RANDOM, H, C...>> { using type = M::Random<St<MID, H>, typename ToFsm<MID, C>::type...>; };
template <int MID, int H, typename... C> struct ToFsm<MID, Rg<ORTHO, H, C...>> { using type = M::Orthogonal<St<MID, H>, typename ToFsm<MID, C>::type...>; };
template <int MID, typename D> struct ToRoot;
template <int MID, int H, typename... C> struct ToRoot<MID, Rg<COMPOSITE, H, C...>> { using type = M::Root<St<MID, H>, typename ToFsm<MID, C>::type...>; };

template <int MID> struct Def;
template <> struct Def<0> { static const char* name() { return "flat2"; }
	using D = Rg<COMPOSITE, 0, Lf<1>, Rg<UTILITARIAN, 2, Lf<3>, Lf<4>>, Rg<RANDOM, 5, Lf<6>, Lf<7>>>; };
template <> struct Def<1> { static const char* name() { return "flat3"; }
	using D = Rg<COMPOSITE, 0, Lf<1>, Rg<UTILITARIAN, 2, Lf<3>, Lf<4>, Lf<5>>, Rg<RANDOM, 6, Lf<7>, Lf<8>, Lf<9>>>; };
template <> struct Def<2> { static const char* name() { return "flat4"; }
	using D = Rg<COMPOSITE, 0, Lf<1>, Rg<UTILITARIAN, 2, Lf<3>, Lf<4>, Lf<5>, Lf<6>>, Rg<RANDOM, 7, Lf<8>, Lf<9>, Lf<10>, Lf<11>>>; };
template <> struct Def<3> { static const char* name() { return "flat5"; }
	using D = Rg<COMPOSITE, 0, Lf<1>, Rg<UTILITARIAN, 2, Lf<3>, Lf<4>, Lf<5>, Lf<6>, Lf<7>>, Rg<RANDOM, 8, Lf<9>, Lf<10>, Lf<11>, Lf<12>, Lf<13>>>; };
template <Kind OUTER>
using NestD = Rg<COMPOSITE, 0, Lf<1>,
				 Rg<OUTER, 2,
					Lf<3>,
					Rg<COMPOSITE, 4, Lf<5>, Lf<6>>,
					Rg<RESUMABLE, 7, Lf<8>, Lf<9>>,
					Rg<ORTHO, 10, Lf<11>, Rg<UTILITARIAN, 12, Lf<13>, Lf<14>>>,
					Rg<UTILITARIAN, 15, Lf<16>, Lf<17>>,
					Rg<RANDOM, 18, Lf<19>, Lf<20>>>>;
template <> struct Def<4> { static const char* name() { return "nestR"; } using D = NestD<RANDOM>; };
template <> struct Def<5> { static const char* name() { return "nestU"; } using D = NestD<UTILITARIAN>; };
template <> struct Def<6> { static const char* name() { return "orthoC"; }
	using D = Rg<COMPOSITE, 0, Lf<1>,
				 Rg<COMPOSITE, 2,
					Lf<3>,
					Rg<ORTHO, 4,
					   Rg<RANDOM, 5, Lf<6>, Lf<7>, Lf<8>>,
					   Rg<UTILITARIAN, 9, Lf<10>, Lf<11>, Lf<12>>,
					   Lf<13>, Lf<14>>>>; };
// orthogonal regions whose LAST sub-state is a region that is not utilitarian (its change-strategy pick differs from its utilize pick)
template <> struct Def<7> { static const char* name() { return "orthoL"; }
	using D = Rg<COMPOSITE, 0, Lf<1>,
				 Rg<UTILITARIAN, 2,
					Lf<3>,
					Rg<ORTHO, 4, Lf<5>, Rg<COMPOSITE, 6, Lf<7>, Lf<8>>>,
					Rg<ORTHO, 9, Rg<UTILITARIAN, 10, Lf<11>, Lf<12>>, Rg<RESUMABLE, 13, Lf<14>, Lf<15>>>,
					Lf<16>>>; };
static const int NMACH = 8;
static const int MID_NESTR = 4, MID_NESTU = 5, MID_ORTHOC = 6, MID_ORTHOL = 7;

template <int MID> using FsmOf = typename ToRoot<MID, typename Def<MID>::D>::type;

template <int MID, int I>
struct St : FsmOf<MID>::State {
	using Base = typename FsmOf<MID>::State;
	using Rank = typename Base::Rank;
	using Utility = typename Base::Utility;
	using Control = typename Base::Control;
	Rank rank(const Control& c) noexcept { return (Rank) c.context().rank[I]; }
	Utility utility(const Control& c) noexcept { return c.context().util[I]; }
};

// ---- run-time tree ---------------------------------------------------------------------------------------

struct Node {
	Kind kind;
	int id, parent, prong, size;  // size = number of states of the sub-tree (ids id .. id+size-1)
	std::vector<int> kids;
};
struct Tree {
	const char* name = "";
	std::vector<Node> n;
	bool flat = false;
	int add(const int id, const Kind k, const int parent, const int prong) {
		if (id != (int) n.size()) { fprintf(stderr, "c12: tree %s is not numbered depth-first at %d\n", name, id); exit(3); }
		n.push_back(Node{k, id, parent, prong, 1, {}});
		if (parent >= 0) n[parent].kids.push_back(id);
		return id;
	}
	bool compo(const int id) const { return n[id].kind >= COMPOSITE && n[id].kind <= RANDOM; }
	int width(const int id) const { return (int) n[id].kids.size(); }
};

template <int MID, typename D> struct Build;
template <int MID, int I> struct Build<MID, Lf<I>> {
	static void run(Tree& t, const int parent, const int prong) {
		static_assert(FsmOf<MID>::template stateId<St<MID, I>>() == I, "depth-first numbering");
		t.add(I, LEAF, parent, prong);
	}
};
template <int MID, Kind K, int H, typename... C> struct Build<MID, Rg<K, H, C...>> {
	static void run(Tree& t, const int parent, const int prong) {
		static_assert(FsmOf<MID>::template stateId<St<MID, H>>() == H, "depth-first numbering");
		t.add(H, K, parent, prong);
		int p = 0;
		const int order[] = {(Build<MID, C>::run(t, H, p++), 0)...};
		(void) order;
		t.n[H].size = (int) t.n.size() - H;
	}
};

// ---- type-erased instance ----------------------------------------------------------------------------------

struct IMach {
	virtual ~IMach() {}
	virtual void changeTo(int id) = 0;
	virtual void utilize(int id) = 0;
	virtual void randomize(int id) = 0;
	virtual bool isActive(int id) const = 0;
	virtual int activeSub(int id) const = 0;
};
template <int MID>
struct Mach final : IMach {
	typename FsmOf<MID>::Instance fsm;
	Mach(Env& e, ScriptRng& r) : fsm{e, r} {}
	void changeTo(int id) override { fsm.immediateChangeTo((hfsm2::StateID) id); }
	void utilize(int id) override { fsm.immediateUtilize((hfsm2::StateID) id); }
	void randomize(int id) override { fsm.immediateRandomize((hfsm2::StateID) id); }
	bool isActive(int id) const override { return fsm.isActive((hfsm2::StateID) id); }
	int activeSub(int id) const override { return (int) fsm.activeSubState((hfsm2::StateID) id); }
};

// ==== numbers of the oracle ===============================================================================

// dyadic rational n / 2^sh, normalised; all values of the exact domain are tiny, so 64 bits never overflow
struct Q {
	long long n = 0;
	int sh = 0;
	Q() {}
	Q(long long n_, int sh_) : n(n_), sh(sh_) { norm(); }
	void norm() { while (sh > 0 && (n & 1) == 0) { n >>= 1; --sh; } if (n == 0) sh = 0; }
	static bool representable(const float f) {
		const double s = std::ldexp((double) f, 20);
		return std::fabs(s) < 1e12 && s == std::floor(s);
	}
	static Q from(const float f) {
		if (!representable(f)) { fprintf(stderr, "c12: %a is outside the exact domain\n", (double) f); exit(3); }
		return Q((long long) std::ldexp((double) f, 20), 20);
	}
	static Q zero() { return Q(); }
	friend Q operator+(const Q& a, const Q& b) { const int s = std::max(a.sh, b.sh); return Q((a.n << (s - a.sh)) + (b.n << (s - b.sh)), s); }
	friend Q operator*(const Q& a, const Q& b) { return Q(a.n * b.n, a.sh + b.sh); }
	Q divw(const int w) const {  // only powers of two keep the library's float division exact
		int k = 0;
		while ((1 << k) < w) ++k;
		if ((1 << k) != w) { fprintf(stderr, "c12: orthogonal width %d in the exact domain\n", w); exit(3); }
		return Q(n, sh + k);
	}
	friend bool operator<(const Q& a, const Q& b) { const int s = std::max(a.sh, b.sh); return (a.n << (s - a.sh)) < (b.n << (s - b.sh)); }
	friend bool operator>(const Q& a, const Q& b) { return b < a; }
	friend bool operator==(const Q& a, const Q& b) { return a.n == b.n && a.sh == b.sh; }
	bool positive() const { return n > 0; }
	double dbl() const { return std::ldexp((double) n, -sh); }
};

// long double: used only where no arithmetic is rounded that matters (comparisons of floats; flat utilize on arbitrary floats)
struct LD {
	long double v = 0;
	LD() {}
	explicit LD(long double x) : v(x) {}
	static bool representable(float) { return true; }
	static LD from(const float f) { return LD((long double) f); }
	static LD zero() { return LD(); }
	friend LD operator+(const LD& a, const LD& b) { return LD(a.v + b.v); }
	friend LD operator*(const LD& a, const LD& b) { return LD(a.v * b.v); }
	LD divw(const int w) const { return LD(v / w); }
	friend bool operator<(const LD& a, const LD& b) { return a.v < b.v; }
	friend bool operator>(const LD& a, const LD& b) { return a.v > b.v; }
	friend bool operator==(const LD& a, const LD& b) { return a.v == b.v; }
	bool positive() const { return v > 0; }
	double dbl() const { return (double) v; }
};

// ==== the reference semantics (the property, transcribed) ====================================================

enum ReqKind { UTILIZE, RANDOMIZE, CHANGE };
static const char* const REQ_NAME[] = {"utilize", "randomize", "change"};
enum Mode { M_NONE, M_FIRST, M_RESUME, M_MAX, M_RAND };
enum Domain { EXACT, ROUNDING };

static Mode modeFor(const ReqKind req, const Kind k) {
	if (req == UTILIZE) return M_MAX;
	if (req == RANDOMIZE) return M_RAND;
	switch (k) {  // change = the region's declared strategy
	case COMPOSITE: return M_FIRST;
	case RESUMABLE: return M_RESUME;
	case UTILITARIAN: return M_MAX;
	case RANDOM: return M_RAND;
	default: return M_NONE;
	}
}

template <typename Num>
struct Model {
	const Tree& t;
	const Env& env;
	const ReqKind req;
	const int* resumable;  // per region id: child index last exited, -1 none
	Num script[MAXDRAW];
	int nscript = 0;
	int draws = 0;
	bool precond = true;  // every weighted-random resolution had a positive top-rank sum
	int pick[MAXS];
	Mode mode[MAXS];
	bool evaluated[MAXS];
	Num repU[MAXS];   // utility reported by the node (head x ...), valid when evaluated
	int top[MAXS];    // top rank among the children of a region resolved at random
	// what made the case non-trivial
	bool tie = false, zeroTop = false, mixedRanks = false, onBoundary = false;

	Model(const Tree& t_, const Env& e, const ReqKind r, const int* res) : t(t_), env(e), req(r), resumable(res) {
		for (int i = 0; i < MAXS; ++i) { pick[i] = -1; mode[i] = M_NONE; evaluated[i] = false; top[i] = 0; }
	}
	Num util(const int id) const { return Num::from(env.util[id]); }

	Num eval(const int id) {
		const Node& nd = t.n[id];
		evaluated[id] = true;
		Num v;
		if (nd.kind == LEAF) v = util(id);
		else if (nd.kind == ORTHO) v = util(id) * sumKids(id).divw(t.width(id));   // head x mean of the sub-states
		else v = util(id) * resolve(id);                                           // head x the sub-state it would activate
		repU[id] = v;
		return v;
	}
	Num sumKids(const int id) {
		Num s = Num::zero();
		for (const int k : t.n[id].kids) s = s + eval(k);
		return s;
	}
	// choose the sub-state of a composite-style region; returns the chosen sub-state's utility
	Num resolve(const int id) {
		const Node& nd = t.n[id];
		const int w = t.width(id);
		const Mode m = modeFor(req, nd.kind);
		mode[id] = m;
		switch (m) {
		case M_FIRST:
			pick[id] = 0;
			return eval(nd.kids[0]);
		case M_RESUME:
			pick[id] = (resumable && resumable[id] >= 0) ? resumable[id] : 0;
			return eval(nd.kids[pick[id]]);
		case M_MAX: {
			Num best = Num::zero();
			int bi = -1, nbest = 0;
			for (int i = 0; i < w; ++i) {
				const Num u = eval(nd.kids[i]);
				if (bi < 0 || u > best) { best = u; bi = i; nbest = 1; }   // the first on ties
				else if (u == best) ++nbest;
			}
			if (nbest > 1) tie = true;
			pick[id] = bi;
			return best;
		}
		case M_RAND: {
			int tp = -128;
			for (int i = 0; i < w; ++i) tp = std::max(tp, (int) env.rank[nd.kids[i]]);
			top[id] = tp;
			Num u[MAXW];
			Num sum = Num::zero();
			for (int i = 0; i < w; ++i) {
				if (env.rank[nd.kids[i]] != tp) { u[i] = Num::zero(); mixedRanks = true; continue; }
				u[i] = eval(nd.kids[i]);
				if (!u[i].positive()) zeroTop = true;
				sum = sum + u[i];
			}
			if (!sum.positive()) { precond = false; pick[id] = -1; return Num::zero(); }
			const Num r = script[draws < nscript ? draws : nscript - 1];
			++draws;
			const Num x = r * sum;
			Num cum = Num::zero();
			int pi = -1;
			for (int i = 0; i < w; ++i) {
				if (env.rank[nd.kids[i]] != tp) continue;
				const Num hi = cum + u[i];
				if (x < hi) { pi = i; if (x == cum) onBoundary = true; break; }  // [cum, cum + u) contains r * sum
				cum = hi;
			}
			pick[id] = pi;  // r < 1 and sum > 0: always found
			return pi >= 0 ? u[pi] : Num::zero();
		}
		default:
			return Num::zero();
		}
	}
	void run(const int target) {
		const Node& nd = t.n[target];
		if (nd.kind == LEAF) return;
		if (nd.kind == ORTHO) { for (const int k : nd.kids) eval(k); return; }
		resolve(target);
	}
	void expectActive(const int id, bool* exp) const {
		exp[id] = true;
		const Node& nd = t.n[id];
		if (nd.kind == LEAF) return;
		if (nd.kind == ORTHO) { for (const int k : nd.kids) expectActive(k, exp); return; }
		if (pick[id] >= 0) expectActive(nd.kids[pick[id]], exp);
	}
};

// ==== engine ============================================================================================

struct Step {
	char op;  // 'Q' request, 'I' to idle, 'C' changeTo(arg)
	int arg;
	int n;
	float script[MAXDRAW];
};
static Step stepQ(const float r) { Step s{'Q', 0, 1, {r}}; return s; }
static Step stepI() { Step s{'I', 0, 0, {0}}; return s; }
static Step stepC(const int id) { Step s{'C', id, 0, {0}}; return s; }

struct Snapshot {
	bool active[MAXS];
	int sub[MAXS];
};

struct Engine;
struct History;
struct MachineInfo {
	Tree tree;
	int (*run)(Engine&, History&);
};

struct History {
	const MachineInfo* mi;
	Env env;
	int target;
	ReqKind kind;
	Domain dom;
	const Step* steps;
	int nsteps;
	bool fresh;  // a single request on a fresh instance: the case counts as an input vector
};

static inline uint32_t fbits(const float f) { uint32_t u; memcpy(&u, &f, 4); return u; }
static std::string hexf(const float f) { char b[40]; snprintf(b, sizeof b, "%a", (double) f); return b; }
static std::string decf(const float f) { char b[40]; snprintf(b, sizeof b, "%.9g", (double) f); return b; }
static long double ulpOf(const float x) { return (long double) std::nextafterf(x, INFINITY) - (long double) x; }

enum Flag { F_TIE, F_ZERO, F_RANKS, F_BOUNDARY, F_NESTED, NFLAG };
static const char* const FLAG_NAME[] = {"tie_for_max", "zero_utility_in_top_rank", "mixed_ranks", "r_on_or_within_2ulp_of_boundary", "nested_regions"};

struct Engine {
	MachineInfo mach[NMACH];
	uint64_t evaluations = 0, freshCases = 0, distinctNontrivial = 0, skippedPrecond = 0;
	uint64_t flagCount[NFLAG] = {0, 0, 0, 0, 0};
	uint64_t exactCases = 0, roundingCases = 0, utilizeCases = 0, randomCases = 0, sequenceRequests = 0;
	uint64_t fallOff = 0, fallOffR23 = 0, fallOffR24 = 0, fallOffOther = 0;
	uint64_t roundingNeighbourAccepted = 0, permutationAccepted = 0, drawsDifferFromModel = 0;
	uint64_t perMachine[NMACH] = {0, 0, 0, 0, 0, 0, 0, 0};
	std::vector<std::string> samples;
	bool sampleFlag[NFLAG] = {false, false, false, false, false};
	bool sampleMach[NMACH] = {false, false, false, false, false, false, false, false};
	std::vector<uint64_t> hashes;  // of every fresh case: distinctness is measured, not assumed
	bool keepHashes = true, hashesComplete = true;
	static constexpr size_t MAX_HASHES = 200000000;
	bool verbose = false;

	// ---- reporting ------------------------------------------------------------------------------------------
	std::string caseJson(const History& h, const int failing, const std::string& extra) const {
		const Tree& t = h.mi->tree;
		const int ns = (int) t.n.size();
		std::string s = "{\"harness\":\"c12_utility\",\"machine\":\"" + std::string(t.name) + "\",\"target\":" + vt::str(h.target) +
						",\"target_kind\":\"" + KIND_NAME[t.n[h.target].kind] + "\",\"request\":\"" + REQ_NAME[h.kind] + "\",\"domain\":\"" +
						(h.dom == EXACT ? "exact" : "rounding") + "\",\"ranks\":[";
		for (int i = 0; i < ns; ++i) s += (i ? "," : "") + vt::str((int) h.env.rank[i]);
		s += "],\"utilities\":[";
		for (int i = 0; i < ns; ++i) s += (i ? "," : "") + decf(h.env.util[i]);
		s += "],\"utilities_hex\":[";
		for (int i = 0; i < ns; ++i) s += std::string(i ? "," : "") + "\"" + hexf(h.env.util[i]) + "\"";
		s += "],\"region_states\":[";
		for (int i = 0; i < t.width(h.target); ++i) s += (i ? "," : "") + vt::str(t.n[h.target].kids[i]);
		s += "],\"steps\":[";
		for (int i = 0; i < h.nsteps && i <= (failing < 0 ? h.nsteps : failing); ++i) {
			const Step& st = h.steps[i];
			std::string e(1, st.op);
			if (st.op == 'C') e += ":" + vt::str(st.arg);
			if (st.op == 'Q') { e += ":"; for (int k = 0; k < st.n; ++k) e += (k ? "," : "") + hexf(st.script[k]); }
			s += std::string(i ? "," : "") + "\"" + e + "\"";
		}
		s += "]";
		if (failing >= 0) {
			s += ",\"failing_step\":" + vt::str(failing);
			const Step& st = h.steps[failing];
			if (st.op == 'Q') { s += ",\"r\":["; for (int k = 0; k < st.n; ++k) s += (k ? "," : "") + decf(st.script[k]); s += "]"; }
		}
		if (!extra.empty()) s += "," + extra;
		return s + "}";
	}
	std::string regionText(const History& h) const {
		const Tree& t = h.mi->tree;
		const Node& nd = t.n[h.target];
		std::string s = "ranks (";
		for (int i = 0; i < (int) nd.kids.size(); ++i) s += (i ? "," : "") + vt::str((int) h.env.rank[nd.kids[i]]);
		s += ") utilities (";
		for (int i = 0; i < (int) nd.kids.size(); ++i) s += (i ? "," : "") + (h.dom == EXACT ? decf(h.env.util[nd.kids[i]]) : hexf(h.env.util[nd.kids[i]]));
		return s + ")";
	}
	void viol(const std::string& fp, const History& h, const int si, const std::string& what, const std::string& extra) {
		{   // beyond the reporter's cap per fingerprint only the count matters
			const auto it = vt::rep().perFingerprint.find(fp);
			if (it != vt::rep().perFingerprint.end() && it->second >= vt::rep().maxPerFingerprint) { vt::rep().violation(fp, "", "null"); return; }
		}
		const Tree& t = h.mi->tree;
		const Step& st = h.steps[si];
		std::string r;
		if (st.op == 'Q' && modeFor(h.kind, t.n[h.target].kind) != M_MAX) {
			r = " generator ";
			for (int k = 0; k < st.n; ++k) r += (k ? "," : "") + hexf(st.script[k]);
		}
		std::string m = std::string(t.name) + ": " + (si > 0 ? "step " + vt::str(si) + " of a sequence, " : "fresh instance, ") + "immediate" +
						(h.kind == UTILIZE ? "Utilize" : h.kind == RANDOMIZE ? "Randomize" : "ChangeTo") + "(" + KIND_NAME[t.n[h.target].kind] + " region S" +
						vt::str(h.target) + ") " + regionText(h) + r + ": " + what;
		vt::rep().violation(fp, m, caseJson(h, si, extra));
	}

	// ---- observation -----------------------------------------------------------------------------------------
	static void snap(const Tree& t, const IMach& m, Snapshot& s) {
		for (int i = 0; i < (int) t.n.size(); ++i) {
			s.active[i] = m.isActive(i);
			s.sub[i] = t.compo(i) ? m.activeSub(i) : INVALID;
		}
	}
	static std::string snapJson(const Tree& t, const Snapshot& s) {
		std::string a = "{\"active\":[";
		bool first = true;
		for (int i = 0; i < (int) t.n.size(); ++i) if (s.active[i]) { a += (first ? "" : ",") + vt::str(i); first = false; }
		a += "],\"activeSubState\":{";
		first = true;
		for (int i = 0; i < (int) t.n.size(); ++i) if (t.compo(i)) { a += std::string(first ? "" : ",") + "\"" + vt::str(i) + "\":" + vt::str(s.sub[i]); first = false; }
		return a + "}}";
	}
	// well-formedness of the whole configuration, public queries only; returns a clause or nullptr
	static const char* wellFormed(const Tree& t, const Snapshot& s, int& where) {
		if (!s.active[0]) { where = 0; return "root-inactive"; }
		for (int i = 0; i < (int) t.n.size(); ++i) {
			const Node& nd = t.n[i];
			where = i;
			if (nd.parent >= 0 && s.active[i] && !s.active[nd.parent]) return "active-state-in-inactive-region";
			if (nd.kind == LEAF) continue;
			int na = 0, which = -1;
			for (int k = 0; k < (int) nd.kids.size(); ++k) if (s.active[nd.kids[k]]) { ++na; which = k; }
			if (nd.kind == ORTHO) {
				if (s.active[i] && na != (int) nd.kids.size()) return "orthogonal-region-with-inactive-sub-state";
				if (!s.active[i] && na != 0) return "active-state-in-inactive-region";
				continue;
			}
			if (s.active[i]) {
				if (na == 0) return "region-without-active-sub-state";
				if (na > 1) return "region-with-several-active-sub-states";
				if (s.sub[i] != which) return "activeSubState-disagrees-with-isActive";
			} else {
				if (na != 0) return "active-state-in-inactive-region";
				if (s.sub[i] != INVALID) return "activeSubState-valid-for-inactive-region";
			}
		}
		where = -1;
		return nullptr;
	}

	// ---- nontrivial bookkeeping --------------------------------------------------------------------------------
	uint64_t caseHash(const History& h) const {
		uint64_t x = UINT64_C(0xCBF29CE484222325);
		auto mix = [&](const uint64_t v) { x = (x ^ v) * UINT64_C(0x100000001B3); x ^= x >> 29; };
		const Tree& t = h.mi->tree;
		mix((uint64_t) (h.mi - mach)); mix(h.target); mix(h.kind);
		for (int i = 0; i < (int) t.n.size(); ++i) { mix((uint8_t) h.env.rank[i]); mix(fbits(h.env.util[i])); }
		const Step& st = h.steps[0];
		if (modeFor(h.kind, t.n[h.target].kind) != M_MAX || !t.flat)   // the script is not an input of a flat utilize
			for (int k = 0; k < st.n; ++k) mix(fbits(st.script[k]));
		return x;
	}
	// returns true when the caller should supply the text of a sample (addSample)
	bool noteFresh(const History& h, const bool flags[NFLAG]) {
		++freshCases;
		const int mid = (int) (h.mi - mach);
		++perMachine[mid];
		if (keepHashes) {
			if (hashes.size() < MAX_HASHES) hashes.push_back(caseHash(h));
			else keepHashes = false, hashesComplete = false;
		}
		bool any = false;
		for (int f = 0; f < NFLAG; ++f) if (flags[f]) { ++flagCount[f]; any = true; }
		if (any) ++distinctNontrivial;
		bool want = false;
		for (int f = 0; f < NFLAG; ++f) if (flags[f] && !sampleFlag[f]) { sampleFlag[f] = true; want = true; }
		if (any && !sampleMach[mid]) { sampleMach[mid] = true; want = true; }
		return want && samples.size() < 16;
	}
	void addSample(const History& h, const bool flags[NFLAG], const Snapshot& cur, const int calls, const std::string& expected) {
		std::string why = "[";
		bool first = true;
		for (int f = 0; f < NFLAG; ++f) if (flags[f]) { why += std::string(first ? "" : ",") + "\"" + FLAG_NAME[f] + "\""; first = false; }
		why += "]";
		samples.push_back(caseJson(h, -1, "\"nontrivial_because\":" + why + ",\"observed\":" + snapJson(h.mi->tree, cur) +
									  ",\"generator_calls\":" + vt::str(calls) + ",\"expected\":" + expected));
	}

	// ---- the checks after one request ----------------------------------------------------------------------------
	// flat region, weighted random, arbitrary floats: hard rules + tolerant interval rule
	bool checkRounding(const History& h, const int si, const Snapshot& cur, const int calls, const long nbreaks, const char* bfile, const int bline) {
		const Tree& t = h.mi->tree;
		const Node& nd = t.n[h.target];
		const int w = (int) nd.kids.size();
		const float r = h.steps[si].script[0];
		int tp = -128;
		bool mixed = false;
		for (int i = 0; i < w; ++i) tp = std::max(tp, (int) h.env.rank[nd.kids[i]]);
		long double sum = 0;
		bool zero = false;
		for (int i = 0; i < w; ++i) {
			if (h.env.rank[nd.kids[i]] != tp) { mixed = true; continue; }
			sum += h.env.util[nd.kids[i]];
			if (!(h.env.util[nd.kids[i]] > 0)) zero = true;
		}
		const long double x = (long double) r * sum;
		const long double ulp = ulpOf((float) sum);
		const long double tol = 4 * ulp;
		int exact = -1;
		bool accept[MAXW] = {false};
		bool near = r <= std::ldexp(1.0f, -23) || r >= 1.0f - std::ldexp(1.0f, -22);
		long double cum = 0;
		for (int i = 0; i < w; ++i) {
			if (h.env.rank[nd.kids[i]] != tp) continue;
			const long double u = h.env.util[nd.kids[i]];
			if (fabsl(x - cum) <= 2 * ulp) near = true;
			if (u > 0) {
				if (cum <= x && x < cum + u) exact = i;
				if (cum - tol <= x && x < cum + u + tol) accept[i] = true;
			}
			cum += u;
		}
		if (fabsl(x - cum) <= 2 * ulp) near = true;
		if (exact < 0) {  // r * sum >= sum can only come from rounding in long double: the last positive sub-state
			for (int i = w - 1; i >= 0; --i) if (h.env.rank[nd.kids[i]] == tp && h.env.util[nd.kids[i]] > 0) { exact = i; break; }
		}
		const int o = cur.sub[h.target];
		int na = 0, which = -1;
		for (int k = 0; k < w; ++k) if (cur.active[nd.kids[k]]) { ++na; which = k; }
		auto expectedText = [&]() {
			std::string expected = "{\"sub_state\":" + vt::str(exact) + ",\"accepted\":[";
			bool first = true;
			for (int i = 0; i < w; ++i) if (accept[i]) { expected += (first ? "" : ",") + vt::str(i); first = false; }
			return expected + "],\"generator_calls\":1}";
		};
		auto extraText = [&]() {
			return "\"observed\":{\"sub_state\":" + vt::str(o) + ",\"active_sub_states\":" + vt::str(na) + ",\"generator_calls\":" + vt::str(calls) +
				   ",\"library_breaks\":" + vt::str(nbreaks) + "},\"expected\":" + expectedText();
		};
		bool ok = true;
		bool noneSel = false;
		if (o == INVALID || o >= w || na == 0) {
			noneSel = true;
			ok = false;
			++fallOff;
			if (fbits(r) == fbits(1.0f - std::ldexp(1.0f, -23))) ++fallOffR23;
			else if (fbits(r) == fbits(1.0f - std::ldexp(1.0f, -24))) ++fallOffR24;
			else ++fallOffOther;
			viol("random/none-selected", h, si,
				 "no sub-state was selected: the region is active, activeSubState = " + vt::str(o) + ", " + vt::str(na) + " active sub-states" +
				 (nbreaks ? std::string("; the library reached HFSM2_BREAK() at ") + bfile + ":" + vt::str(bline) : std::string()) +
				 "; r*sum = " + vt::str((double) x) + " of sum " + vt::str((double) sum) + " belongs to sub-state " + vt::str(exact), extraText());
		} else if (na != 1 || which != o) {
			ok = false;
			viol("wellformed/region-with-several-active-sub-states", h, si, vt::str(na) + " sub-states of the region are active, activeSubState = " + vt::str(o), extraText());
		} else if (h.env.rank[nd.kids[o]] != tp) {
			ok = false;
			viol("random/lower-rank-selected", h, si, "sub-state " + vt::str(o) + " of rank " + vt::str((int) h.env.rank[nd.kids[o]]) + " selected, top rank is " + vt::str(tp), extraText());
		} else if (!(h.env.util[nd.kids[o]] > 0)) {
			ok = false;
			viol("random/zero-utility-selected", h, si, "sub-state " + vt::str(o) + " with utility 0 selected", extraText());
		} else if (!accept[o]) {
			ok = false;
			viol("random/wrong-interval-rounding", h, si,
				 "sub-state " + vt::str(o) + " selected, r*sum = " + vt::str((double) x) + " lies in the interval of sub-state " + vt::str(exact) +
				 " and not within 4 ulp(sum) = " + vt::str((double) tol) + " of the interval of " + vt::str(o), extraText());
		} else if (o != exact) ++roundingNeighbourAccepted;
		if (calls != 1 && !noneSel) {
			ok = false;
			viol("random/generator-calls", h, si, vt::str(calls) + " generator calls for one flat random region", extraText());
		}
		if (nbreaks && !noneSel) {
			ok = false;
			viol(std::string("assert/") + REQ_NAME[h.kind], h, si, std::string("library assertion / HFSM2_BREAK() at ") + bfile + ":" + vt::str(bline), extraText());
		}
		if (ok) {
			int where = -1;
			if (const char* c = wellFormed(t, cur, where)) {
				ok = false;
				viol(std::string("wellformed/") + c, h, si, std::string(c) + " at S" + vt::str(where), extraText());
			}
		}
		if (h.fresh) {
			++roundingCases; ++randomCases;
			const bool flags[NFLAG] = {false, zero, mixed, near, false};
			if (noteFresh(h, flags)) addSample(h, flags, cur, calls, expectedText());
		}
		return ok;
	}

	// first region of the target's sub-tree whose observed sub-state differs from the model; -1 if none
	template <typename Num>
	static int firstMismatch(const Tree& t, const int target, const Model<Num>& md, const Snapshot& cur) {
		bool exp[MAXS] = {false};
		md.expectActive(target, exp);
		const Node& T = t.n[target];
		for (int id = target; id < target + T.size; ++id) {
			if (exp[id] != cur.active[id]) return id == target ? target : t.n[id].parent;
			if (exp[id] && t.compo(id) && cur.sub[id] != md.pick[id]) return id;
		}
		return -1;
	}
	static bool hasOrtho(const Tree& t, const int id) {
		for (int i = id; i < id + t.n[id].size; ++i) if (t.n[i].kind == ORTHO) return true;
		return false;
	}
	static bool underOrtho(const Tree& t, int id, const int stop) {
		for (; id >= 0 && id != stop; id = t.n[id].parent) if (t.n[id].kind == ORTHO) return true;
		return id >= 0 && t.n[id].kind == ORTHO;
	}

	template <typename Num>
	void fillScript(Model<Num>& md, const Step& st, const int* perm) const {
		md.nscript = st.n;
		for (int k = 0; k < st.n; ++k) md.script[k] = Num::from(st.script[perm ? perm[k] : k]);
	}

	// exact arithmetic model: strict equality
	template <typename Num>
	bool checkModel(const History& h, const int si, const Snapshot& cur, const int* resumable, const int calls, const long nbreaks,
					const char* bfile, const int bline) {
		const Tree& t = h.mi->tree;
		const Step& st = h.steps[si];
		Model<Num> md(t, h.env, h.kind, resumable);
		fillScript(md, st, nullptr);
		md.run(h.target);
		int bad = firstMismatch(t, h.target, md, cur);
		if (bad >= 0 && calls >= 2 && calls <= 4) {
			// the order in which several random regions of one request read the generator is not part of the property:
			// accept the observation if some assignment of the consumed outputs to the regions explains it
			bool distinct = false;
			for (int k = 1; k < std::min(calls, st.n); ++k) if (fbits(st.script[k]) != fbits(st.script[0])) distinct = true;
			if (distinct && st.n >= calls) {
				int perm[MAXDRAW];
				for (int k = 0; k < MAXDRAW; ++k) perm[k] = k;
				while (std::next_permutation(perm, perm + calls)) {
					Model<Num> alt(t, h.env, h.kind, resumable);
					fillScript(alt, st, perm);
					alt.run(h.target);
					if (alt.precond && firstMismatch(t, h.target, alt, cur) < 0) { bad = -1; ++permutationAccepted; break; }
				}
			}
		}
		bool exp[MAXS] = {false};
		md.expectActive(h.target, exp);
		// generator calls: one per random region resolved; nested: between the activated ones and all of the re-targeted sub-tree
		int lo = 0, hi = 0, top = h.target;
		while (t.n[top].parent >= 0 && t.n[t.n[top].parent].kind == ORTHO) top = t.n[top].parent;
		for (int id = h.target; id < h.target + t.n[h.target].size; ++id) if (t.compo(id) && exp[id] && modeFor(h.kind, t.n[id].kind) == M_RAND) ++lo;
		for (int id = top; id < top + t.n[top].size; ++id) if (t.compo(id) && modeFor(h.kind, t.n[id].kind) == M_RAND) ++hi;
		auto expectedText = [&]() {
			std::string expected = "{\"active\":[";
			{ bool first = true; for (int i = 0; i < (int) t.n.size(); ++i) if (exp[i]) { expected += (first ? "" : ",") + vt::str(i); first = false; } }
			expected += "],\"sub_state\":{";
			{ bool first = true; for (int i = 0; i < (int) t.n.size(); ++i) if (exp[i] && t.compo(i)) { expected += std::string(first ? "" : ",") + "\"" + vt::str(i) + "\":" + vt::str(md.pick[i]); first = false; } }
			expected += "},\"reported_utilities\":{";
			{ bool first = true; for (int i = h.target; i < h.target + t.n[h.target].size; ++i) if (md.evaluated[i]) { expected += std::string(first ? "" : ",") + "\"" + vt::str(i) + "\":" + vt::str(md.repU[i].dbl()); first = false; } }
			return expected + "},\"generator_calls\":[" + vt::str(lo) + "," + vt::str(hi) + "]}";
		};
		auto extraText = [&]() {
			return "\"observed\":" + snapJson(t, cur) + ",\"generator_calls\":" + vt::str(calls) + ",\"library_breaks\":" + vt::str(nbreaks) + ",\"expected\":" + expectedText();
		};

		bool ok = true, noneSel = false;
		if (bad >= 0) {
			ok = false;
			const Node& g = t.n[bad];
			const int o = t.compo(bad) ? cur.sub[bad] : INVALID;
			const int e = md.pick[bad];
			int na = 0;
			for (const int k : g.kids) if (cur.active[k]) ++na;
			const bool flatCase = t.flat && bad == h.target;
			const std::string at = bad == h.target ? std::string("") : std::string("nested ") + KIND_NAME[g.kind] + " region S" + vt::str(bad) + ": ";
			if (g.kind == ORTHO) {
				viol("wellformed/orthogonal-region-with-inactive-sub-state", h, si, at + "orthogonal region S" + vt::str(bad) + " is not entered with all its sub-states", extraText());
			} else if (!cur.active[bad]) {
				viol("request/target-not-active", h, si, at + "the region is not active after the request", extraText());
			} else if (md.mode[bad] == M_RAND) {
				if (o == INVALID || o >= (int) g.kids.size() || na == 0) {
					noneSel = true;
					++fallOff;
					viol("random/none-selected", h, si, at + "no sub-state was selected (activeSubState = " + vt::str(o) + ", " + vt::str(na) + " active sub-states), expected sub-state " + vt::str(e) +
						 (nbreaks ? std::string("; the library reached HFSM2_BREAK() at ") + bfile + ":" + vt::str(bline) : std::string()), extraText());
				} else if (h.env.rank[g.kids[o]] != md.top[bad])
					viol("random/lower-rank-selected", h, si, at + "sub-state " + vt::str(o) + " of rank " + vt::str((int) h.env.rank[g.kids[o]]) + " selected, top rank is " + vt::str(md.top[bad]) + ", expected sub-state " + vt::str(e), extraText());
				else if (md.evaluated[g.kids[o]] && !md.repU[g.kids[o]].positive())
					viol("random/zero-utility-selected", h, si, at + "sub-state " + vt::str(o) + " with utility 0 selected, expected sub-state " + vt::str(e), extraText());
				else
					viol(flatCase ? "random/wrong-interval-exact" : "random/nested-wrong-interval", h, si,
						 at + "sub-state " + vt::str(o) + " selected, the cumulative interval that contains r*sum belongs to sub-state " + vt::str(e), extraText());
			} else if (md.mode[bad] == M_MAX) {
				const bool ortho = (e >= 0 && hasOrtho(t, g.kids[e])) || (o >= 0 && o < (int) g.kids.size() && hasOrtho(t, g.kids[o])) || underOrtho(t, bad, h.target);
				const bool nested = bad != h.target || (e >= 0 && t.n[g.kids[e]].kind != LEAF) || (o >= 0 && o < (int) g.kids.size() && t.n[g.kids[o]].kind != LEAF);
				const char* fp = flatCase ? "utilize/not-leftmost-max" : ortho ? "utilize/orthogonal-mean" : nested ? "utilize/nested" : "utilize/not-leftmost-max";
				viol(fp, h, si, at + "sub-state " + vt::str(o) + " selected, the greatest utility (first on ties) is that of sub-state " + vt::str(e) +
					 (e >= 0 && md.evaluated[g.kids[e]] ? " (" + vt::str(md.repU[g.kids[e]].dbl()) + (o >= 0 && o < (int) g.kids.size() && md.evaluated[g.kids[o]] ? " vs " + vt::str(md.repU[g.kids[o]].dbl()) : std::string()) + ")" : std::string()), extraText());
			} else {
				viol(md.mode[bad] == M_FIRST ? "change/nested-first" : "change/nested-resumable", h, si,
					 at + "sub-state " + vt::str(o) + " active, the region's own strategy activates sub-state " + vt::str(e), extraText());
			}
		}
		if (!noneSel && (calls < lo || calls > hi)) {
			ok = false;
			viol(hi == 0 ? "utilize/generator-calls" : "random/generator-calls", h, si,
				 vt::str(calls) + " generator calls, expected " + (lo == hi ? vt::str(lo) : "between " + vt::str(lo) + " and " + vt::str(hi)), extraText());
		}
		if (calls != md.draws && top == h.target) ++drawsDifferFromModel;
		if (nbreaks && !noneSel) {
			ok = false;
			viol(std::string("assert/") + REQ_NAME[h.kind], h, si, std::string("library assertion / HFSM2_BREAK() at ") + bfile + ":" + vt::str(bline), extraText());
		}
		if (ok) {
			int where = -1;
			if (const char* c = wellFormed(t, cur, where)) {
				ok = false;
				viol(std::string("wellformed/") + c, h, si, std::string(c) + " at S" + vt::str(where), extraText());
			}
		}
		if (h.fresh) {
			(h.dom == EXACT ? exactCases : roundingCases)++;
			(hi > 0 ? randomCases : utilizeCases)++;
			const bool flags[NFLAG] = {md.tie, md.zeroTop, md.mixedRanks, md.onBoundary, !t.flat};
			if (noteFresh(h, flags)) addSample(h, flags, cur, calls, expectedText());
		}
		return ok;
	}

	// precondition of the property for this request in the current state (positive top-rank sums wherever a random choice is made)
	bool precondition(const History& h, const Step& st, const int* resumable) const {
		const Tree& t = h.mi->tree;
		if (h.dom == ROUNDING) return true;  // flat, ensured by the enumeration
		Model<Q> md(t, h.env, h.kind, resumable);
		fillScript(md, st, nullptr);
		md.run(h.target);
		if (!md.precond) return false;
		// a region of the re-targeted sub-tree outside the target may be resolved too (target below an orthogonal region)
		int top = h.target;
		while (t.n[top].parent >= 0 && t.n[t.n[top].parent].kind == ORTHO) top = t.n[top].parent;
		if (top != h.target) {
			Model<Q> all(t, h.env, h.kind, resumable);
			fillScript(all, st, nullptr);
			all.run(top);
			if (!all.precond) return false;
		}
		return true;
	}

	// ---- one history on one fresh instance; returns the index of the violated step or -1 -------------------------
	int run(IMach& m, ScriptRng& rng, History& h) {
		const Tree& t = h.mi->tree;
		int resumable[MAXS];
		for (int i = 0; i < MAXS; ++i) resumable[i] = -1;
		Snapshot prev, cur;
		snap(t, m, cur);
		for (int si = 0; si < h.nsteps; ++si) {
			const Step& st = h.steps[si];
			prev = cur;
			const long b0 = vt::breaks().count;
			if (st.op == 'Q') {
				if (!precondition(h, st, resumable)) { ++skippedPrecond; return -2; }
				rng.v = st.script; rng.n = st.n; rng.calls = 0;
				if (h.kind == UTILIZE) m.utilize(h.target);
				else if (h.kind == RANDOMIZE) m.randomize(h.target);
				else m.changeTo(h.target);
			} else {
				rng.v = nullptr; rng.n = 0; rng.calls = 0;
				m.changeTo(st.op == 'I' ? 1 : st.arg);
			}
			const long nb = vt::breaks().count - b0;
			snap(t, m, cur);
			if (st.op == 'Q') {
				++evaluations;
				if (!h.fresh) ++sequenceRequests;
				bool ok = true;
				for (int id = h.target; id >= 0; id = t.n[id].parent)
					if (!cur.active[id]) {
						viol("request/target-not-active", h, si, "S" + vt::str(id) + " is not active after the request", "\"observed\":" + snapJson(t, cur));
						ok = false;
						break;
					}
				if (ok) {
					const bool rnd = modeFor(h.kind, t.n[h.target].kind) == M_RAND;
					if (h.dom == ROUNDING && rnd) ok = checkRounding(h, si, cur, rng.calls, nb, vt::breaks().file, vt::breaks().line);
					else if (h.dom == ROUNDING) ok = checkModel<LD>(h, si, cur, resumable, rng.calls, nb, vt::breaks().file, vt::breaks().line);
					else ok = checkModel<Q>(h, si, cur, resumable, rng.calls, nb, vt::breaks().file, vt::breaks().line);
				}
				if (!ok) return si;
			} else {
				int where = -1;
				const char* c = wellFormed(t, cur, where);
				const int want = st.op == 'I' ? 1 : st.arg;
				if (c || nb || !cur.active[want]) {
					viol(nb ? "assert/setup" : "wellformed/setup", h, si,
						 std::string("set-up step immediateChangeTo(S") + vt::str(want) + "): " +
						 (nb ? std::string("library assertion at ") + vt::breaks().file + ":" + vt::str(vt::breaks().line) : c ? std::string(c) + " at S" + vt::str(where) : std::string("destination not active")),
						 "\"observed\":" + snapJson(t, cur));
					return si;
				}
			}
			// the library remembers, per region, the sub-state it left last
			// (it forgets it again when that very sub-state is re-entered on entering the region)
			for (int id = 0; id < (int) t.n.size(); ++id) {
				if (!t.compo(id)) continue;
				const int p = prev.sub[id], c = cur.sub[id];
				const bool pv = p != INVALID && p < t.width(id), cv = c != INVALID && c < t.width(id);
				if (pv && c != p) resumable[id] = p;
				else if (!pv && cv && resumable[id] == c) resumable[id] = -1;
			}
		}
		return -1;
	}

	int exec(const int mid, Env& env, const int target, const ReqKind kind, const Domain dom, const Step* steps, const int nsteps, const bool fresh) {
		History h{&mach[mid], env, target, kind, dom, steps, nsteps, fresh};
		return mach[mid].run(*this, h);
	}
};

template <int MID>
static int runOn(Engine& e, History& h) {
	ScriptRng rng;
	Mach<MID> m{h.env, rng};
	return e.run(m, rng, h);
}
template <int MID>
static void initMachine(Engine& e) {
	MachineInfo& mi = e.mach[MID];
	mi.tree.name = Def<MID>::name();
	Build<MID, typename Def<MID>::D>::run(mi.tree, -1, 0);
	mi.tree.flat = MID < 4;
	mi.run = &runOn<MID>;
	if ((int) mi.tree.n.size() > MAXS) { fprintf(stderr, "c12: MAXS\n"); exit(3); }
}

// ==== enumeration ===========================================================================================

static void baseEnv(Env& e) {
	for (int i = 0; i < MAXS; ++i) { e.rank[i] = 0; e.util[i] = 1.0f; }
}

struct Rnd {  // xorshift64*, fixed seed: the sampled nested vectors are the same in every run and build
	uint64_t s;
	uint64_t next() { s ^= s >> 12; s ^= s << 25; s ^= s >> 27; return s * UINT64_C(2685821657736338717); }
	int below(const int n) { return (int) ((next() >> 33) % (uint64_t) n); }
};

struct Combo { bool onRandomRegion; ReqKind kind; };
// the three ways to reach the weighted-random walk of a flat region, and the three ways to reach the utility maximum
static const Combo RAND_COMBOS[3] = {{true, RANDOMIZE}, {true, CHANGE}, {false, RANDOMIZE}};
static const Combo MAX_COMBOS[3] = {{false, UTILIZE}, {false, CHANGE}, {true, UTILIZE}};

struct Tier {
	bool thorough;
	int exactW5RankStride;    // quick: every n-th rank vector at width 5
	int roundingExtraRanks;   // mixed rank vectors per utility vector (width >= 4) besides 'all equal'
	int nestedSamples;
	int floatSamples;         // sampled full-mantissa utility vectors per width
};

// a sequence on one long-lived instance over the generator outputs that were fine on fresh instances:
// from idle, again while active, away to idle and back, ...
static void runSequence(Engine& e, const int mid, Env& env, const int target, const ReqKind kind, const Domain dom, const std::vector<float>& rs,
						std::vector<Step>& buf) {
	if (rs.empty()) return;
	buf.clear();
	for (size_t i = 0; i < rs.size(); ++i) {
		if (i % 3 == 2) buf.push_back(stepI());
		buf.push_back(stepQ(rs[i]));
	}
	e.exec(mid, env, target, kind, dom, buf.data(), (int) buf.size(), false);
}

static void flatIds(const int w, const bool onRandomRegion, int& target, int& firstLeaf) {
	target = onRandomRegion ? 3 + w : 2;
	firstLeaf = target + 1;
}

static void flatExact(Engine& e, const Tier& tier, const int w) {
	const int mid = w - 2;
	int nr = 1, nu = 1;
	for (int i = 0; i < w; ++i) { nr *= 3; nu *= 4; }
	std::vector<Step> buf;
	std::vector<float> okR;
	Env env;
	// weighted random
	for (const Combo& c : RAND_COMBOS) {
		int target, leaf0;
		flatIds(w, c.onRandomRegion, target, leaf0);
		for (int ri = 0; ri < nr; ++ri) {
			if (w == 5 && tier.exactW5RankStride > 1 && ri % tier.exactW5RankStride != 0 && ri != nr / 2) continue;
			for (int ui = 0; ui < nu; ++ui) {
				baseEnv(env);
				int top = -2;
				for (int i = 0, x = ri, y = ui; i < w; ++i, x /= 3, y /= 4) {
					env.rank[leaf0 + i] = (signed char) (x % 3 - 1);
					env.util[leaf0 + i] = (float) (y % 4);
					top = std::max(top, x % 3 - 1);
				}
				int sum = 0;
				for (int i = 0; i < w; ++i) if (env.rank[leaf0 + i] == top) sum += (int) env.util[leaf0 + i];
				if (sum <= 0) continue;  // outside the property
				okR.clear();
				for (int k = 0; k < 64; ++k) {
					const Step s = stepQ((float) k / 64.0f);
					if (e.exec(mid, env, target, c.kind, EXACT, &s, 1, true) == -1) okR.push_back(s.script[0]);
				}
				runSequence(e, mid, env, target, c.kind, EXACT, okR, buf);
			}
		}
	}
	// utility maximum: ranks must not matter
	static const signed char RANKS[3][5] = {{0, 0, 0, 0, 0}, {1, 0, -1, 1, 0}, {-1, 1, 0, 0, 1}};
	for (const Combo& c : MAX_COMBOS) {
		int target, leaf0;
		flatIds(w, c.onRandomRegion, target, leaf0);
		for (int rp = 0; rp < 3; ++rp)
			for (int ui = 0; ui < nu; ++ui) {
				baseEnv(env);
				for (int i = 0, y = ui; i < w; ++i, y /= 4) { env.rank[leaf0 + i] = RANKS[rp][i]; env.util[leaf0 + i] = (float) (y % 4); }
				const Step s = stepQ(0.5f);
				if (e.exec(mid, env, target, c.kind, EXACT, &s, 1, true) == -1) {
					okR.assign(3, 0.5f);
					runSequence(e, mid, env, target, c.kind, EXACT, okR, buf);
				}
			}
	}
}

static const int NVAL = 8;
static float roundingValue(const int i) {
	static const float V[NVAL] = {0.0f, std::ldexp(1.0f, -24), 0.1f, 1.0f / 3.0f, 1.0f, 3.0f, 1e10f, FLT_MIN * 2};
	return V[i];
}

// one (utilities, ranks) vector of a flat region in the rounding domain: all generator outputs of interest x the three request paths
struct RoundingScratch {
	std::vector<Step> buf;
	std::vector<float> rs, okR;
};
static void roundingVector(Engine& e, RoundingScratch& sc, const int w, const float* u, const signed char* rk, const bool small) {
	const int mid = w - 2;
	Env env;
	int top = -2;
	for (int i = 0; i < w; ++i) top = std::max(top, (int) rk[i]);
	long double sum = 0;
	for (int i = 0; i < w; ++i) if (rk[i] == top) sum += u[i];
	if (!(sum > 0)) return;  // outside the property
	// generator outputs: the fixed ones, and for every cumulative boundary the float nearest to boundary/sum and its two neighbours
	std::vector<float>& rs = sc.rs;
	rs.clear();
	rs.push_back(0.0f); rs.push_back(std::ldexp(1.0f, -24)); rs.push_back(0.5f);
	rs.push_back(1.0f - std::ldexp(1.0f, -23)); rs.push_back(1.0f - std::ldexp(1.0f, -24));
	long double cum = 0;
	for (int i = 0; i < w; ++i) {
		if (rk[i] != top) continue;
		cum += u[i];
		const float f = (float) (cum / sum);
		rs.push_back(f); rs.push_back(std::nextafterf(f, -1.0f)); rs.push_back(std::nextafterf(f, 2.0f));
	}
	std::sort(rs.begin(), rs.end());
	rs.erase(std::unique(rs.begin(), rs.end(), [](float a, float b) { return fbits(a) == fbits(b); }), rs.end());
	rs.erase(std::remove_if(rs.begin(), rs.end(), [&](const float r) {
				 return !(r >= 0.0f && r < 1.0f) || (small && r * 64.0f == std::floor(r * 64.0f));
			 }), rs.end());
	for (const Combo& c : RAND_COMBOS) {
		int target, leaf0;
		flatIds(w, c.onRandomRegion, target, leaf0);
		baseEnv(env);
		for (int i = 0; i < w; ++i) { env.rank[leaf0 + i] = rk[i]; env.util[leaf0 + i] = u[i]; }
		sc.okR.clear();
		for (const float r : rs) {
			const Step s = stepQ(r);
			if (e.exec(mid, env, target, c.kind, ROUNDING, &s, 1, true) == -1) sc.okR.push_back(r);
		}
		runSequence(e, mid, env, target, c.kind, ROUNDING, sc.okR, sc.buf);
	}
}

static void flatRounding(Engine& e, const Tier& tier, const int w) {
	const int mid = w - 2;
	int nu = 1, nr = 1;
	for (int i = 0; i < w; ++i) { nu *= NVAL; nr *= 3; }
	RoundingScratch sc;
	std::vector<int> rankSets;
	Env env;
	Rnd rnd{UINT64_C(0x9E3779B97F4A7C15) + (uint64_t) w};
	for (int ui = 0; ui < nu; ++ui) {
		float u[MAXW];
		bool small = true;  // all utilities in {0,1,2,3}: with r = k/64 the case belongs to the exact domain and is not repeated here
		for (int i = 0, y = ui; i < w; ++i, y /= NVAL) { u[i] = roundingValue(y % NVAL); if (!(u[i] == 0 || u[i] == 1 || u[i] == 3)) small = false; }
		// rank vectors: all equal; every vector for narrow regions (thorough), a few sampled ones otherwise
		rankSets.clear();
		rankSets.push_back(nr / 2);  // (0,0,...,0)
		if (tier.thorough && w <= 3) { for (int ri = 0; ri < nr; ++ri) if (ri != nr / 2) rankSets.push_back(ri); }
		else for (int k = 0; k < tier.roundingExtraRanks; ++k) {
			const int ri = rnd.below(nr);
			if (std::find(rankSets.begin(), rankSets.end(), ri) == rankSets.end()) rankSets.push_back(ri);
		}
		for (const int ri : rankSets) {
			signed char rk[MAXW];
			for (int i = 0, x = ri; i < w; ++i, x /= 3) rk[i] = (signed char) (x % 3 - 1);
			roundingVector(e, sc, w, u, rk, small);
		}
		// utility maximum over arbitrary floats (comparisons only, nothing is rounded)
		if (small) continue;
		for (const Combo& c : MAX_COMBOS) {
			int target, leaf0;
			flatIds(w, c.onRandomRegion, target, leaf0);
			baseEnv(env);
			for (int i = 0; i < w; ++i) { env.rank[leaf0 + i] = (signed char) ((ui + i) % 3 - 1); env.util[leaf0 + i] = u[i]; }
			const Step s = stepQ(0.5f);
			e.exec(mid, env, target, c.kind, ROUNDING, &s, 1, true);
		}
	}
}

// sampled (fixed seed) utility vectors with full 24-bit mantissas: uniform in [0,1), some scaled by 2^k, some exactly 0
static void flatSampledFloats(Engine& e, const Tier& tier, const int w) {
	RoundingScratch sc;
	Rnd g{UINT64_C(0xF10A75) * (uint64_t) (w + 1)};
	static const signed char RK[6] = {0, 0, 1, -1, 0, 1};
	for (int s = 0; s < tier.floatSamples; ++s) {
		float u[MAXW];
		signed char rk[MAXW];
		const int style = g.below(4);
		for (int i = 0; i < w; ++i) {
			u[i] = std::ldexp((float) (g.next() >> 40), -24);
			if (style == 1) u[i] = std::ldexp(u[i], g.below(41) - 20);
			if (style == 2 && g.below(4) == 0) u[i] = 0.0f;
			rk[i] = s % 4 == 3 ? RK[g.below(6)] : 0;
		}
		roundingVector(e, sc, w, u, rk, false);
	}
}

// nested structures: sampled vectors over the exact domain (leaves 0..3, heads 0/1/2, ranks -1/0/1, outputs k/64)
static void sampleEnv(const Tree& t, Rnd& g, Env& env, const bool ranked) {
	static const float HEAD[6] = {1, 2, 1, 2, 0, 1};
	static const signed char RK[6] = {0, 0, 1, -1, 0, 1};
	baseEnv(env);
	for (int i = 2; i < (int) t.n.size(); ++i) {
		env.util[i] = t.n[i].kind == LEAF ? (float) g.below(4) : HEAD[g.below(6)];
		env.rank[i] = ranked ? RK[g.below(6)] : 0;
	}
}
static Step sampleQ(Rnd& g, const bool constant) {
	Step s{'Q', 0, MAXDRAW, {0}};
	const float r0 = (float) g.below(64) / 64.0f;
	for (int k = 0; k < MAXDRAW; ++k) s.script[k] = constant ? r0 : (float) g.below(64) / 64.0f;
	// a good share of boundary outputs
	if (g.below(4) == 0) s.script[g.below(MAXDRAW)] = 0.0f;
	if (g.below(4) == 0) s.script[g.below(MAXDRAW)] = 63.0f / 64.0f;
	if (constant) for (int k = 1; k < MAXDRAW; ++k) s.script[k] = s.script[0];
	return s;
}

static void nested(Engine& e, const Tier& tier) {
	Rnd g{UINT64_C(0xC12C12C12C12C12)};
	Env env;
	Step seq[8];
	struct TK { int mid, target; ReqKind kind; bool constantOnly; };
	static const TK TKS[] = {
		{MID_NESTR, 2, RANDOMIZE, false}, {MID_NESTR, 2, CHANGE, false}, {MID_NESTR, 2, UTILIZE, false},
		{MID_NESTU, 2, UTILIZE, false},   {MID_NESTU, 2, CHANGE, false}, {MID_NESTU, 2, RANDOMIZE, false},
		// a nested region addressed directly
		{MID_NESTR, 10, UTILIZE, false},  {MID_NESTR, 10, RANDOMIZE, false}, {MID_NESTU, 18, CHANGE, false}, {MID_NESTU, 7, RANDOMIZE, false},
		// utilitarian / random regions inside an orthogonal region inside a composite region
		{MID_ORTHOC, 2, UTILIZE, false},  {MID_ORTHOC, 2, RANDOMIZE, false},
		{MID_ORTHOC, 4, UTILIZE, false},  {MID_ORTHOC, 4, RANDOMIZE, false}, {MID_ORTHOC, 4, CHANGE, false},
		{MID_ORTHOC, 5, RANDOMIZE, true}, {MID_ORTHOC, 5, CHANGE, true},     {MID_ORTHOC, 5, UTILIZE, true},
		{MID_ORTHOC, 9, UTILIZE, true},   {MID_ORTHOC, 9, CHANGE, true},     {MID_ORTHOC, 9, RANDOMIZE, true},
		// orthogonal candidates whose last sub-state is a composite / resumable region
		{MID_ORTHOL, 2, UTILIZE, false},  {MID_ORTHOL, 2, CHANGE, false},    {MID_ORTHOL, 2, RANDOMIZE, false},
		{MID_ORTHOL, 4, UTILIZE, false},  {MID_ORTHOL, 9, UTILIZE, false},
	};
	for (const TK& tk : TKS) {
		const Tree& t = e.mach[tk.mid].tree;
		std::vector<int> leaves;
		// set-up destinations: leaves whose activation does not resolve a random region on the way (that would need its own precondition)
		for (int i = 2; i < (int) t.n.size(); ++i) if (t.n[i].kind == LEAF && !(tk.mid == MID_ORTHOC && i >= 9)) leaves.push_back(i);
		for (int s = 0; s < tier.nestedSamples; ++s) {
			sampleEnv(t, g, env, s % 3 != 0);
			const bool constant = tk.constantOnly || s % 2 == 0;
			const Step q = sampleQ(g, constant);
			if (e.exec(tk.mid, env, tk.target, tk.kind, EXACT, &q, 1, true) != -1) continue;
			// the same vector from a prepared state: some leaf first (marks resumable sub-states), away to idle, the request,
			// the request again while active with other outputs, away, and back
			int n = 0;
			seq[n++] = stepC(leaves[g.below((int) leaves.size())]);
			seq[n++] = stepI();
			seq[n++] = q;
			seq[n++] = sampleQ(g, constant);
			seq[n++] = stepI();
			seq[n++] = sampleQ(g, constant);
			e.exec(tk.mid, env, tk.target, tk.kind, EXACT, seq, n, false);
		}
	}
}

// ==== replay ================================================================================================

static std::vector<std::string> split(const std::string& s, const char sep) {
	std::vector<std::string> out;
	std::string cur;
	for (const char c : s) { if (c == sep) { out.push_back(cur); cur.clear(); } else cur += c; }
	out.push_back(cur);
	return out;
}

static int replay(Engine& e, int argc, char** argv) {
	if (argc < 9) { fprintf(stderr, "usage: replay <machine> <target> <kind> <domain> <ranks> <utilities> <steps>\n"); return 2; }
	int mid = -1;
	for (int i = 0; i < NMACH; ++i) if (std::string(e.mach[i].tree.name) == argv[2]) mid = i;
	if (mid < 0) { fprintf(stderr, "unknown machine %s\n", argv[2]); return 2; }
	const int target = atoi(argv[3]);
	ReqKind kind = UTILIZE;
	for (int k = 0; k < 3; ++k) if (std::string(REQ_NAME[k]) == argv[4]) kind = (ReqKind) k;
	const Domain dom = std::string(argv[5]) == "exact" ? EXACT : ROUNDING;
	Env env;
	baseEnv(env);
	const std::vector<std::string> rk = split(argv[6], ','), ut = split(argv[7], ',');
	for (size_t i = 0; i < rk.size() && i < (size_t) MAXS; ++i) env.rank[i] = (signed char) atoi(rk[i].c_str());
	for (size_t i = 0; i < ut.size() && i < (size_t) MAXS; ++i) env.util[i] = strtof(ut[i].c_str(), nullptr);
	std::vector<Step> steps;
	for (const std::string& s : split(argv[8], ';')) {
		if (s.empty()) continue;
		if (s[0] == 'I') steps.push_back(stepI());
		else if (s[0] == 'C') steps.push_back(stepC(atoi(s.c_str() + 2)));
		else {
			Step q{'Q', 0, 0, {0}};
			for (const std::string& v : split(s.substr(2), ',')) if (q.n < MAXDRAW) q.script[q.n++] = strtof(v.c_str(), nullptr);
			if (q.n == 0) q.script[q.n++] = 0;
			steps.push_back(q);
		}
	}
	const int rc = e.exec(mid, env, target, kind, dom, steps.data(), (int) steps.size(), steps.size() == 1);
	printf("{\"type\":\"summary\",\"evaluations\":%" PRIu64 ",\"violations\":%ld,\"result\":%d,\"samples\":[]}\n", e.evaluations, vt::rep().violations, rc);
	return 0;
}

// ==== main ==================================================================================================

int main(int argc, char** argv) {
	const std::string mode = argc > 1 ? argv[1] : "quick";
	Engine* ep = new Engine();
	Engine& e = *ep;
	initMachine<0>(e); initMachine<1>(e); initMachine<2>(e); initMachine<3>(e); initMachine<4>(e); initMachine<5>(e); initMachine<6>(e); initMachine<7>(e);
	vt::rep().maxPerFingerprint = 2;
	if (mode == "replay") return replay(e, argc, argv);

	const bool thorough = mode == "thorough";
#ifdef VT_REDUCED
	const Tier tier = thorough ? Tier{true, 3, 6, 100000, 100000} : Tier{false, 27, 1, 4000, 5000};
#else
	const Tier tier = thorough ? Tier{true, 1, 24, 400000, 400000} : Tier{false, 9, 2, 12000, 20000};
#endif
	e.keepHashes = getenv("C12_NO_HASHES") == nullptr;
	for (int w = 2; w <= 5; ++w) flatExact(e, tier, w);
	for (int w = 2; w <= 5; ++w) flatRounding(e, tier, w);
	for (int w = 2; w <= 5; ++w) flatSampledFloats(e, tier, w);
	nested(e, tier);

	// distinctness of the fresh cases is measured: duplicates are subtracted (there should be none in the enumerated part)
	uint64_t duplicates = 0;
	if (e.keepHashes) {
		std::sort(e.hashes.begin(), e.hashes.end());
		for (size_t i = 1; i < e.hashes.size(); ++i) if (e.hashes[i] == e.hashes[i - 1]) ++duplicates;
	}

	std::string sj = "[";
	for (size_t i = 0; i < e.samples.size(); ++i) sj += (i ? "," : "") + e.samples[i];
	sj += "]";
	std::string fc = "{";
	{ bool first = true; for (auto& kv : vt::rep().perFingerprint) { fc += std::string(first ? "" : ",") + "\"" + vt::jesc(kv.first) + "\":" + vt::str(kv.second); first = false; } }
	fc += "}";
	std::string pm = "{";
	for (int i = 0; i < NMACH; ++i) pm += std::string(i ? "," : "") + "\"" + e.mach[i].tree.name + "\":" + vt::str(e.perMachine[i]);
	pm += "}";
	const uint64_t dn = e.distinctNontrivial > duplicates ? e.distinctNontrivial - duplicates : 0;
	printf("{\"type\":\"summary\",\"evaluations\":%" PRIu64 ",\"distinct_nontrivial\":%" PRIu64 ",\"fresh_cases\":%" PRIu64 ",\"duplicate_fresh_cases\":%" PRIu64
		   ",\"distinctness_measured\":%d,\"sequence_requests\":%" PRIu64 ",\"exact_cases\":%" PRIu64 ",\"rounding_cases\":%" PRIu64
		   ",\"random_cases\":%" PRIu64 ",\"utilize_cases\":%" PRIu64 ",\"skipped_outside_precondition\":%" PRIu64
		   ",\"with_tie_for_max\":%" PRIu64 ",\"with_zero_utility_in_top_rank\":%" PRIu64 ",\"with_mixed_ranks\":%" PRIu64
		   ",\"with_r_at_boundary\":%" PRIu64 ",\"with_nested_regions\":%" PRIu64
		   ",\"none_selected\":%" PRIu64 ",\"none_selected_r_1m2e23\":%" PRIu64 ",\"none_selected_r_1m2e24\":%" PRIu64 ",\"none_selected_other_r\":%" PRIu64
		   ",\"rounding_neighbour_accepted\":%" PRIu64 ",\"permutation_accepted\":%" PRIu64 ",\"draws_differ_from_model\":%" PRIu64
		   ",\"violations\":%ld,\"fingerprint_counts\":%s,\"fresh_cases_per_machine\":%s,\"samples\":%s}\n",
		   e.evaluations, dn, e.freshCases, duplicates, (e.keepHashes && e.hashesComplete) ? 1 : 0, e.sequenceRequests, e.exactCases, e.roundingCases,
		   e.randomCases, e.utilizeCases, e.skippedPrecond,
		   e.flagCount[F_TIE], e.flagCount[F_ZERO], e.flagCount[F_RANKS], e.flagCount[F_BOUNDARY], e.flagCount[F_NESTED],
		   e.fallOff, e.fallOffR23, e.fallOffR24, e.fallOffOther,
		   e.roundingNeighbourAccepted, e.permutationAccepted, e.drawsDifferFromModel,
		   vt::rep().violations, fc.c_str(), pm.c_str(), sj.c_str());
	return 0;
}
