// C19: fixed-capacity task pool and bounded arrays vs ideal containers.
// Explicit-state BFS to a fixpoint over the *concrete* state of the real hfsm2::detail::TaskListT /
// DynamicArrayT / StaticArrayT objects; every edge is compared with a std::map / std::vector reference.
#define HFSM2_ENABLE_PLANS
#ifdef VT_ASSERT
#define HFSM2_ENABLE_ASSERT
#endif
#ifdef VT_DEV_HEADER
#include <hfsm2/machine_dev.hpp>
#else
#include <hfsm2/machine.hpp>
#endif
#include "harness/common.hpp"
#include <deque>
#include <unordered_map>
#include <unordered_set>

using namespace hfsm2;
using namespace hfsm2::detail;

static long g_states = 0, g_edges = 0, g_compared = 0, g_pairs = 0;
static std::vector<std::string> g_samples;

// ---- pool ------------------------------------------------------------------------------------------

struct Op { char kind; int arg; };  // 'e' emplace(tag) | 'r' remove(slot) | 'c' clear
static std::string opsJson(const std::vector<Op>& h) {
	std::string s = "[";
	for (size_t i = 0; i < h.size(); ++i) {
		if (i) s += ",";
		s += "\"" + std::string(1, h[i].kind) + vt::str(h[i].arg) + "\"";
	}
	return s + "]";
}

template <typename P> struct PayloadOps;
template <> struct PayloadOps<int> {
	static int make(int tag) { return 1000 + tag * 7; }
	static bool same(const TaskT<int>& t, int tag) { return t.payload() && *t.payload() == make(tag); }
	static constexpr const char* NAME = "int";
};
struct alignas(16) Fat { double d; char c; bool operator==(const Fat& o) const { return d == o.d && c == o.c; } };
template <> struct PayloadOps<Fat> {
	static Fat make(int tag) { return Fat{tag * 0.5, (char) ('a' + tag)}; }
	static bool same(const TaskT<Fat>& t, int tag) { return t.payload() && *t.payload() == make(tag); }
	static constexpr const char* NAME = "fat16";
};

template <typename P, Long C>
struct PoolCheck {
	using Pool = TaskListT<P, C>;
	using Ref = std::map<Long, int>;  // live slot -> tag

	struct Node { Pool pool; Ref ref; std::vector<Op> hist; };

	static std::string key(const Pool& p, const Ref& r) {
		std::string k;
		k += vt::str(p._vacantHead) + "," + vt::str(p._vacantTail) + "," + vt::str(p._last) + "," + vt::str(p._count) + "|";
		for (Long i = 0; i < C; ++i) {
			auto it = r.find(i);
			if (it != r.end()) k += "L" + vt::str(it->second) + ";";
			else k += "v" + vt::str(p._items[i].prev) + ":" + vt::str(p._items[i].next) + ";";
		}
		return k;
	}

	static std::string cfg() { return std::string("pool<") + PayloadOps<P>::NAME + "," + vt::str(C) + ">"; }

	static void fail(const std::string& clause, const std::string& msg, const std::vector<Op>& h) {
		vt::rep().violation("pool/" + clause, cfg() + ": " + msg,
							"{\"harness\":\"c19_pool\",\"object\":\"" + cfg() + "\",\"ops\":" + opsJson(h) + "}");
	}

	// observations that the property talks about; returns false when the state must not be expanded
	static bool observe(const Pool& p, const Ref& r, const std::vector<Op>& h) {
		bool ok = true;
		if (p.count() != (Long) r.size()) { fail("count", "count()=" + vt::str(p.count()) + " live=" + vt::str(r.size()), h); ok = false; }
		if (p.empty() != r.empty()) { fail("empty", "empty() disagrees with live set", h); ok = false; }
		for (auto& kv : r) {
			const auto& t = p[kv.first];
			const int tag = kv.second;
			if (t.origin != (StateID) tag || t.destination != (StateID) (tag + 1) ||
				t.type != (TransitionType) (tag % 3) || !PayloadOps<P>::same(t, tag)) {
				fail("contents", "live slot " + vt::str(kv.first) + " lost its contents (tag " + vt::str(tag) + ")", h);
				ok = false;
			}
		}
		// vacant list: no live slot on it, in range, acyclic (only when not full)
		if (p._count < C) {
			std::set<Long> seen;
			for (Long c = p._vacantHead; ; ) {
				if (c >= C) { fail("vacant", "vacant list leaves the pool", h); ok = false; break; }
				if (r.count(c)) { fail("vacant", "live slot " + vt::str(c) + " is on the vacant list", h); ok = false; break; }
				if (!seen.insert(c).second) { fail("vacant", "vacant list is cyclic", h); ok = false; break; }
				if (c == p._vacantTail) break;
				c = p._items[c].next;
			}
		}
		return ok;
	}

	// apply an op to (pool, ref); checks the per-op contract; returns false on violation
	static bool apply(Pool& p, Ref& r, const Op& op, std::vector<Op>& h) {
		h.push_back(op);
		const long b0 = vt::breaks().count;
		bool ok = true;
		if (op.kind == 'e') {
			const int tag = op.arg;
			const Long idx = p.emplace((StateID) tag, (StateID) (tag + 1), (TransitionType) (tag % 3), PayloadOps<P>::make(tag));
			const bool full = (Long) r.size() == C;
			if (full) {
				if (idx != Pool::INVALID) { fail("emplace-full", "emplace on a full pool returned slot " + vt::str(idx), h); ok = false; }
				// the 'full' branch contains an unconditional HFSM2_BREAK(): tolerated, it is the documented signal
				if (vt::breaks().count - b0 > 1) { fail("assert", "assertion in emplace(full)", h); ok = false; }
				vt::breaks().count = b0;
			} else {
				if (idx == Pool::INVALID || idx >= C) { fail("emplace-range", "emplace returned " + vt::str(idx) + " with " + vt::str(r.size()) + " live", h); return false; }
				if (r.count(idx)) { fail("emplace-live", "emplace handed out live slot " + vt::str(idx), h); return false; }
				r[idx] = tag;
			}
		} else if (op.kind == 'r') {
			p.remove((Long) op.arg);
			r.erase((Long) op.arg);
		} else {
			p.clear();
			r.clear();
		}
		if (vt::breaks().count != b0) {
			fail("assert", std::string("library assertion ") + vt::breaks().file + ":" + vt::str(vt::breaks().line), h);
			vt::breaks().count = b0;
			ok = false;
		}
		return ok;
	}

	static std::vector<Op> menu(const Ref& r) {
		std::vector<Op> m;
		m.push_back({'e', 1});
		m.push_back({'e', 2});
		for (auto& kv : r) m.push_back({'r', (int) kv.first});
		m.push_back({'c', 0});
		return m;
	}

	// lock-step exploration of (a, fresh): every op sequence must give the same observations
	static void asNew(const Node& cleared) {
		struct Pair { Pool a; Ref ra; Pool b; Ref rb; std::vector<Op> hist; };
		std::unordered_set<std::string> seen;
		std::deque<Pair> q;
		Pair p0{cleared.pool, cleared.ref, Pool{}, Ref{}, cleared.hist};
		seen.insert(key(p0.a, p0.ra) + "#" + key(p0.b, p0.rb));
		q.push_back(p0);
		while (!q.empty()) {
			Pair cur = q.front(); q.pop_front();
			for (const Op& op : menu(cur.ra)) {
				if (op.kind == 'c') continue;  // clear leads back to (cleared', fresh'): covered by the outer loop
				Pair nx = cur;
				std::vector<Op> hb = nx.hist;
				bool ok = apply(nx.a, nx.ra, op, nx.hist);
				ok = apply(nx.b, nx.rb, op, hb) && ok;
				++g_pairs;
				if (nx.ra != nx.rb || nx.a.count() != nx.b.count()) {
					fail("clear-as-new", "after clear() the pool hands out different slots than a new pool", nx.hist);
					continue;
				}
				if (!ok) continue;
				if (seen.insert(key(nx.a, nx.ra) + "#" + key(nx.b, nx.rb)).second) q.push_back(nx);
			}
		}
	}

	static void run(bool pairCheck) {
		std::unordered_set<std::string> seen;
		std::deque<Node> q;
		Node n0{};
		seen.insert(key(n0.pool, n0.ref));
		q.push_back(n0);
		observe(n0.pool, n0.ref, n0.hist);
		long local = 0;
		std::unordered_set<std::string> clearedSeen;
		while (!q.empty()) {
			Node cur = q.front(); q.pop_front();
			++g_states; ++local;
			for (const Op& op : menu(cur.ref)) {
				Node nx = cur;
				bool ok = apply(nx.pool, nx.ref, op, nx.hist);
				++g_edges; ++g_compared;
				ok = observe(nx.pool, nx.ref, nx.hist) && ok;
				if (!ok) continue;  // violating states are reported once and not expanded
				const std::string k = key(nx.pool, nx.ref);
				if (op.kind == 'c' && pairCheck && clearedSeen.insert(k).second) asNew(nx);
				if (seen.insert(k).second) {
					if (g_samples.size() < 4 && nx.hist.size() >= 4) g_samples.push_back("{\"object\":\"" + cfg() + "\",\"ops\":" + opsJson(nx.hist) + ",\"key\":\"" + k + "\"}");
					q.push_back(nx);
				}
			}
		}
		printf("{\"type\":\"sub\",\"object\":\"%s\",\"states\":%ld}\n", cfg().c_str(), local);
	}
};

// ---- DynamicArrayT ---------------------------------------------------------------------------------

template <typename Item> struct ItemOps;
template <> struct ItemOps<TransitionT<int>> {
	static TransitionT<int> make(int v) { return TransitionT<int>{(StateID) v, (StateID) (v + 3), (TransitionType) (v % 4), 500 + v}; }
	static bool same(const TransitionT<int>& t, int v) {
		return t.origin == (StateID) v && t.destination == (StateID) (v + 3) && t.type == (TransitionType) (v % 4) && t.payload() && *t.payload() == 500 + v;
	}
	static constexpr const char* NAME = "TransitionT<int>";
};
template <> struct ItemOps<TransitionT<void>> {
	static TransitionT<void> make(int v) { return TransitionT<void>{(StateID) v, (StateID) (v + 3), (TransitionType) (v % 4)}; }
	static bool same(const TransitionT<void>& t, int v) {
		return t.origin == (StateID) v && t.destination == (StateID) (v + 3) && t.type == (TransitionType) (v % 4);
	}
	static constexpr const char* NAME = "TransitionT<void>";
};

template <typename Item, Long C>
struct ArrayCheck {
	using Arr = DynamicArrayT<Item, C>;
	using Ref = std::vector<int>;
	static std::string cfg() { return std::string("DynamicArrayT<") + ItemOps<Item>::NAME + "," + vt::str(C) + ">"; }
	static std::string hj(const std::vector<std::string>& h) {
		std::string s = "[";
		for (size_t i = 0; i < h.size(); ++i) s += (i ? ",\"" : "\"") + h[i] + "\"";
		return s + "]";
	}
	static void fail(const std::string& clause, const std::string& msg, const std::vector<std::string>& h) {
		vt::rep().violation("array/" + clause, cfg() + ": " + msg, "{\"harness\":\"c19_pool\",\"object\":\"" + cfg() + "\",\"ops\":" + hj(h) + "}");
	}
	static bool observe(const Arr& a, const Ref& r, const std::vector<std::string>& h) {
		bool ok = true;
		if ((size_t) a.count() != r.size() || a.empty() != r.empty()) { fail("count", "count()=" + vt::str((long) a.count()) + " expected " + vt::str(r.size()), h); return false; }
		size_t i = 0;
		for (const auto& it : a) {
			if (i >= r.size() || !ItemOps<Item>::same(it, r[i])) { fail("order", "iteration item " + vt::str(i) + " differs", h); ok = false; break; }
			++i;
		}
		if (ok && i != r.size()) { fail("order", "iteration stops early", h); ok = false; }
		for (size_t j = 0; ok && j < r.size(); ++j)
			if (!ItemOps<Item>::same(a[j], r[j])) { fail("index", "operator[] item " + vt::str(j) + " differs", h); ok = false; }
		return ok;
	}
	template <Long N>
	static void bulk(const Arr& base, const Ref& r, const std::vector<std::string>& h,
					 std::deque<std::pair<Arr, std::pair<Ref, std::vector<std::string>>>>& q, std::set<Ref>& seen) {
		// every source array of every length 0..min(N, C-count) over {1,2}
		const size_t room = C - r.size();
		for (size_t len = 0; len <= (size_t) N && len <= room; ++len)
			for (unsigned bits = 0; bits < (1u << len); ++bits) {
				DynamicArrayT<Item, N> src;
				Ref add;
				for (size_t i = 0; i < len; ++i) { int v = 1 + ((bits >> i) & 1); src.emplace(ItemOps<Item>::make(v)); add.push_back(v); }
				Arr a = base; Ref rr = r;
				std::vector<std::string> hh = h;
				std::string name = "+=<" + vt::str(N) + ">[";
				for (int v : add) name += vt::str(v);
				hh.push_back(name + "]");
				const long b0 = vt::breaks().count;
				a += src;
				rr.insert(rr.end(), add.begin(), add.end());
				++g_edges; ++g_compared;
				bool ok = observe(a, rr, hh);
				// the source must be untouched
				size_t i = 0; for (const auto& it : src) { if (!ItemOps<Item>::same(it, add[i])) { fail("bulk-src", "+= modified its source", hh); ok = false; } ++i; }
				if (vt::breaks().count != b0) { fail("assert", "library assertion in +=", hh); vt::breaks().count = b0; ok = false; }
				if (ok && seen.insert(rr).second) q.push_back({a, {rr, hh}});
			}
	}
	static void run() {
		std::set<Ref> seen;
		std::deque<std::pair<Arr, std::pair<Ref, std::vector<std::string>>>> q;
		q.push_back({Arr{}, {Ref{}, {}}});
		seen.insert(Ref{});
		long local = 0;
		while (!q.empty()) {
			auto cur = q.front(); q.pop_front();
			++g_states; ++local;
			const Arr& a0 = cur.first; const Ref& r0 = cur.second.first; const auto& h0 = cur.second.second;
			observe(a0, r0, h0);
			if (r0.size() < (size_t) C)
				for (int v = 1; v <= 2; ++v) {
					for (int form = 0; form < 2; ++form) {  // const& overload and && overload
						Arr a = a0; Ref r = r0; auto h = h0;
						h.push_back(std::string(form ? "emplace&&" : "emplace&") + vt::str(v));
						const long b0 = vt::breaks().count;
						long idx;
						if (form) idx = (long) a.emplace(ItemOps<Item>::make(v));
						else { const Item it = ItemOps<Item>::make(v); idx = (long) a.emplace(it); }
						r.push_back(v);
						++g_edges; ++g_compared;
						bool ok = observe(a, r, h);
						if (idx != (long) r.size() - 1) { fail("emplace-index", "emplace returned " + vt::str(idx), h); ok = false; }
						if (vt::breaks().count != b0) { fail("assert", "library assertion in emplace", h); vt::breaks().count = b0; ok = false; }
						if (ok && seen.insert(r).second) q.push_back({a, {r, h}});
					}
				}
			bulk<1>(a0, r0, h0, q, seen);
			bulk<2>(a0, r0, h0, q, seen);
			bulk<C>(a0, r0, h0, q, seen);
			bulk<C + 2>(a0, r0, h0, q, seen);
			{  // copy: copy-construct + copy-assign, the copy must observe the same and evolve independently
				Arr a = a0; auto h = h0; h.push_back("copy");
				Arr b{a};
				Arr c; c = a;
				++g_edges; ++g_compared;
				observe(b, r0, h); observe(c, r0, h);
				if (r0.size() < (size_t) C) {
					b.emplace(ItemOps<Item>::make(2));
					Ref rb = r0; rb.push_back(2);
					h.push_back("emplace-on-copy");
					observe(b, rb, h);
					if (!observe(a, r0, h)) fail("copy-alias", "editing a copy changed the original", h);
				}
			}
			{  // clear
				Arr a = a0; auto h = h0; h.push_back("clear");
				a.clear();
				++g_edges; ++g_compared;
				if (observe(a, Ref{}, h) && seen.insert(Ref{}).second) q.push_back({a, {Ref{}, h}});
			}
		}
		printf("{\"type\":\"sub\",\"object\":\"%s\",\"states\":%ld}\n", cfg().c_str(), local);
	}
};

// capacities on both sides of the widths of the index type (UCapacity<>): one maximal path, i.e. the array is filled item by item to
// its capacity; count and the new item are compared after every append, everything (iteration, operator[], count, copy, copy-assign,
// bulk append from arrays of length 0..3 where they fit, clear and refill) at the first steps, around every power of two and at capacity
template <typename Item, Long C>
static void largeArray() {
	using AC = ArrayCheck<Item, C>;
	using Arr = typename AC::Arr;
	Arr a; std::vector<int> r; std::vector<std::string> h;
	auto near2 = [](size_t n) { for (size_t p = 4; p <= 65536; p *= 2) if (n + 2 >= p && n <= p + 2) return true; return n <= 3; };
	long local = 0;
	h.push_back("fill to " + vt::str((long) C));
	for (size_t n = 0; n <= (size_t) C; ++n) {
		++g_states; ++local; ++g_edges; ++g_compared;
		h.back() = "emplace x " + vt::str(n) + " (values i % 251)";
		if ((size_t) a.count() != n) { AC::fail("count", "count()=" + vt::str((long) a.count()) + " after " + vt::str(n) + " appends", h); return; }
		if (n && !ItemOps<Item>::same(a[(Long) (n - 1)], r[n - 1])) { AC::fail("index", "the item appended last reads back differently", h); return; }
		if (near2(n) || n + 3 >= (size_t) C) {
			if (!AC::observe(a, r, h)) return;
			Arr b{a}; Arr c; c = a;
			auto hc = h; hc.push_back("copy");
			if (!AC::observe(b, r, hc) || !AC::observe(c, r, hc)) return;
			for (size_t len = 0; len <= 3 && n + len <= (size_t) C; ++len) {
				DynamicArrayT<Item, 3> src; std::vector<int> rr = r;
				for (size_t i = 0; i < len; ++i) { src.emplace(ItemOps<Item>::make(1 + (int) i)); rr.push_back(1 + (int) i); }
				Arr d{a}; d += src;
				auto hd = h; hd.push_back("+=<3> of " + vt::str(len) + " item(s)");
				++g_edges; ++g_compared;
				if (!AC::observe(d, rr, hd)) return;
			}
			Arr e{a}; e.clear();
			auto he = h; he.push_back("clear");
			++g_edges; ++g_compared;
			if (!AC::observe(e, std::vector<int>{}, he)) return;
			e.emplace(ItemOps<Item>::make(2)); he.push_back("emplace2");
			if (!AC::observe(e, std::vector<int>{2}, he)) return;
		}
		if (n < (size_t) C) {
			const int v = (int) (n % 251);
			const long b0 = vt::breaks().count;
			const long idx = (long) a.emplace(ItemOps<Item>::make(v));
			r.push_back(v);
			if (idx != (long) n) { h.back() = "emplace x " + vt::str(n + 1); AC::fail("emplace-index", "emplace returned " + vt::str(idx) + " for item " + vt::str(n), h); return; }
			if (vt::breaks().count != b0) { AC::fail("assert", "library assertion in emplace", h); vt::breaks().count = b0; return; }
		}
	}
	printf("{\"type\":\"sub\",\"object\":\"%s (fill path)\",\"states\":%ld}\n", AC::cfg().c_str(), local);
}

// ---- StaticArrayT ----------------------------------------------------------------------------------

template <typename T, Long C>
static void staticArray(const char* name, std::vector<T> alphabet) {
	using Arr = StaticArrayT<T, C>;
	// all C-tuples over the alphabet (alphabet[0] must be filler<T>())
	const size_t A = alphabet.size();
	size_t total = 1; for (Long i = 0; i < C; ++i) total *= A;
	std::vector<std::vector<T>> tuples;
	for (size_t n = 0; n < total; ++n) {
		std::vector<T> t; size_t x = n;
		for (Long i = 0; i < C; ++i) { t.push_back(alphabet[x % A]); x /= A; }
		tuples.push_back(t);
	}
	auto mk = [&](const std::vector<T>& t) { Arr a; for (Long i = 0; i < C; ++i) a[i] = t[i]; return a; };
	auto fail = [&](const std::string& clause, const std::string& msg, size_t n, size_t m) {
		vt::rep().violation("static/" + clause, std::string(name) + "<" + vt::str(C) + ">: " + msg,
							"{\"harness\":\"c19_pool\",\"object\":\"StaticArrayT\",\"tuple\":" + vt::str(n) + ",\"other\":" + vt::str(m) + "}");
	};
	{ Arr fresh; bool e = true; for (Long i = 0; i < C; ++i) e = e && fresh[i] == T{}; if (!e) fail("default", "default-constructed array not value-initialised", 0, 0); }
	for (size_t n = 0; n < total; ++n) {
		Arr a = mk(tuples[n]);
		++g_states;
		bool allFiller = true; for (auto& v : tuples[n]) allFiller = allFiller && v == alphabet[0];
		++g_edges; ++g_compared;
		if (a.empty() != allFiller) fail("empty", "empty() wrong", n, 0);
		if (a.count() != C) fail("count", "count() != CAPACITY", n, 0);
		for (size_t m = 0; m < total; ++m) {
			Arr b = mk(tuples[m]);
			++g_edges; ++g_compared;
			if ((a != b) != (tuples[n] != tuples[m])) fail("neq", "operator!= wrong", n, m);
		}
		for (size_t f = 0; f < A; ++f) {
			Arr b = a; b.fill(alphabet[f]);
			++g_edges; ++g_compared;
			for (Long i = 0; i < C; ++i) if (b[i] != alphabet[f]) fail("fill", "fill left an element", n, f);
			Arr c{alphabet[f]};
			if (c != b) fail("fill-ctor", "filling constructor differs from fill()", n, f);
		}
		Arr c = a; c.clear();
		++g_edges; ++g_compared;
		if (!c.empty()) fail("clear", "clear() did not make the array empty()", n, 0);
		long cnt = 0; for (auto& it : a) { if (it != tuples[n][cnt]) fail("iter", "iteration differs", n, 0); ++cnt; }
		if (cnt != C) fail("iter", "iteration length", n, 0);
	}
}

int main(int argc, char** argv) {
	const bool thorough = argc > 1 && std::string(argv[1]) == "thorough";
	PoolCheck<int, 1>::run(true);
	PoolCheck<int, 2>::run(true);
	PoolCheck<int, 3>::run(true);
	PoolCheck<int, 4>::run(true);
	PoolCheck<Fat, 3>::run(true);
	if (thorough) {
		PoolCheck<int, 5>::run(true);
		PoolCheck<int, 6>::run(false);
		PoolCheck<Fat, 4>::run(true);
	}
	ArrayCheck<TransitionT<int>, 1>::run();
	ArrayCheck<TransitionT<int>, 2>::run();
	ArrayCheck<TransitionT<int>, 3>::run();
	ArrayCheck<TransitionT<int>, 4>::run();
	ArrayCheck<TransitionT<void>, 3>::run();
	largeArray<TransitionT<int>, 15>(); largeArray<TransitionT<int>, 16>(); largeArray<TransitionT<int>, 17>();
	largeArray<TransitionT<void>, 127>(); largeArray<TransitionT<int>, 128>();
	largeArray<TransitionT<int>, 255>(); largeArray<TransitionT<int>, 256>(); largeArray<TransitionT<void>, 256>(); largeArray<TransitionT<int>, 257>();
	largeArray<TransitionT<void>, 65535>();
	if (thorough) {
		ArrayCheck<TransitionT<int>, 6>::run();
		ArrayCheck<TransitionT<void>, 5>::run();
	}
	staticArray<Short, 1>("StaticArrayT<Short>", {INVALID_SHORT, 0, 3});
	staticArray<Short, 3>("StaticArrayT<Short>", {INVALID_SHORT, 0, 3});
	staticArray<Short, 4>("StaticArrayT<Short>", {INVALID_SHORT, 0, 3});
	staticArray<Long, 3>("StaticArrayT<Long>", {0, 1, 7});
	if (thorough) staticArray<Short, 5>("StaticArrayT<Short>", {INVALID_SHORT, 0, 3, 9});
	std::string samples = "[";
	for (size_t i = 0; i < g_samples.size(); ++i) samples += (i ? "," : "") + g_samples[i];
	samples += "]";
	printf("{\"type\":\"summary\",\"states\":%ld,\"transitions\":%ld,\"compared\":%ld,\"pair_edges\":%ld,\"violations\":%ld,\"samples\":%s}\n",
		   g_states, g_edges, g_compared, g_pairs, vt::rep().violations, samples.c_str());
	return 0;
}
