// C07: plan storage keeps per-region task lists intact under edits and at capacity.
// A real 3-region machine (root composite R, composite A{A1,A2}, orthogonal B{B1,B2}) is created with
// Config::TaskCapacityN<C>; it is never updated, only its plan storage is driven through the public Plan API
// (append variants, remove-while-iterating, clear) of all three regions. Explicit-state BFS to a fixpoint over
// the *concrete* storage (PlanDataT::tasks / taskLinks / taskBounds / planExists); a state is represented by
// its op history and re-created (fresh instance + replay) for every edge. Every edge is compared with a
// std::vector<std::vector<Task>> reference and the raw links are checked structurally.
#define HFSM2_ENABLE_PLANS
#ifdef VT_ASSERT
#define HFSM2_ENABLE_ASSERT
#endif
#ifdef VT_DEV_HEADER
#include <hfsm2/machine_dev.hpp>
#else
#include <hfsm2/machine.hpp>
#endif
#include "harness/common.hpp"
#include <deque>
#include <unordered_set>

using hfsm2::Long;
using hfsm2::StateID;
using hfsm2::RegionID;
using hfsm2::TransitionType;

static long g_states = 0, g_edges = 0, g_compared = 0, g_replayedOps = 0, g_engineErrors = 0;
static std::vector<std::string> g_samples;

static const int REGIONS = 3;
static const char* const LEGEND =
	"a<region>:<label> append | r<region>:<i>[+<j>..] remove the i-th (j-th..) visited task(s) while iterating the "
	"region's plan to its end | c<region> clear | x0 the library's whole-storage reset PlanData::clear() (what exit() and load() do); regions 0=R(root) 1=A 2=B";

// ---- ops ---------------------------------------------------------------------------------------------

struct Op { char kind; int region; int arg; };  // 'a' arg=label | 'r' arg=bit mask of visited positions | 'x' whole-storage reset | 'c'

static std::string opStr(const Op& o) {
	std::string s(1, o.kind);
	s += vt::str(o.region);
	if (o.kind == 'a') s += ":" + vt::str(o.arg);
	if (o.kind == 'r') {
		s += ":";
		bool first = true;
		for (int i = 0; i < 16; ++i)
			if (o.arg >> i & 1) { s += (first ? "" : "+") + vt::str(i); first = false; }
	}
	return s;
}
static std::string opsJson(const std::vector<Op>& h) {
	std::string s = "[";
	for (size_t i = 0; i < h.size(); ++i) s += (i ? ",\"" : "\"") + opStr(h[i]) + "\"";
	return s + "]";
}

// ---- reference model ---------------------------------------------------------------------------------

struct RTask {
	long origin, destination;
	int type;
	bool hasPayload;
	long payload;
	bool operator==(const RTask& o) const {
		return origin == o.origin && destination == o.destination && type == o.type &&
			   hasPayload == o.hasPayload && (!hasPayload || payload == o.payload);
	}
	bool operator!=(const RTask& o) const { return !(*this == o); }
};
using RList = std::vector<RTask>;
using Ref = std::vector<RList>;  // one list per region

// fast decimal formatting (vt::str goes through an ostringstream; the state key is built once per edge)
static std::string num(long v) {
	char b[24];
	char* e = b + sizeof b;
	char* p = e;
	unsigned long u = v < 0 ? 0ul - (unsigned long) v : (unsigned long) v;
	do { *--p = (char) ('0' + u % 10); u /= 10; } while (u);
	if (v < 0) *--p = '-';
	return std::string(p, e);
}
static std::string taskStr(const RTask& t) {
	std::string s = num(t.origin);
	s += '>'; s += num(t.destination); s += '/'; s += num(t.type);
	if (t.hasPayload) { s += '='; s += num(t.payload); }
	return s;
}
static std::string listStr(const RList& l) {
	std::string s = "[";
	for (size_t i = 0; i < l.size(); ++i) s += (i ? " " : "") + taskStr(l[i]);
	return s + "]";
}
static std::string ix(Long v) { return v == hfsm2::INVALID_LONG ? std::string("-") : num((long) v); }

template <typename P> struct TaskRead;
template <> struct TaskRead<void> {
	static RTask read(const hfsm2::detail::TaskT<void>& t) { return RTask{(long) t.origin, (long) t.destination, (int) t.type, false, 0}; }
	static constexpr const char* NAME = "void";
};
template <> struct TaskRead<int> {
	static RTask read(const hfsm2::detail::TaskT<int>& t) {
		const int* p = t.payload();
		return RTask{(long) t.origin, (long) t.destination, (int) t.type, p != nullptr, p ? (long) *p : 0};
	}
	static constexpr const char* NAME = "int";
};

template <Long C, typename P> struct Cfg { using type = typename hfsm2::Config::template TaskCapacityN<C>::template PayloadT<P>; };
template <Long C> struct Cfg<C, void> { using type = typename hfsm2::Config::template TaskCapacityN<C>; };

// ---- the machine -------------------------------------------------------------------------------------

template <Long C, typename P>
struct W {
	using M = hfsm2::MachineT<typename Cfg<C, P>::type>;
	struct R; struct A; struct A1; struct A2; struct B; struct B1; struct B2;
	using FSM = typename M::template Root<R,
					typename M::template Composite<A, A1, A2>,
					typename M::template Orthogonal<B, B1, B2>
				>;
	struct R  : FSM::State {};
	struct A  : FSM::State {};
	struct A1 : FSM::State {};
	struct A2 : FSM::State {};
	struct B  : FSM::State {};
	struct B1 : FSM::State {};
	struct B2 : FSM::State {};

	using Instance = typename FSM::Instance;
	using Plan = typename Instance::Plan;
	using CPlan = typename Instance::CPlan;
	using PlanData = typename Plan::PlanData;

	static constexpr StateID sA = 1, sA1 = 2, sA2 = 3, sB = 4, sB1 = 5, sB2 = 6;

	static std::string cfg() { return std::string("plans<") + TaskRead<P>::NAME + "," + vt::str(C) + ">"; }

	static void fail(const std::string& fingerprint, const std::string& msg, const std::vector<Op>& h) {
		vt::rep().violation(fingerprint, cfg() + ": " + msg,
							"{\"harness\":\"c07_plans\",\"machine\":\"" + cfg() + "\",\"ops\":" + opsJson(h) + ",\"legend\":\"" + LEGEND + "\"}");
	}

	// the three public ways to address a region's plan on an instance
	static Plan planOf(Instance& m, int r) {
		return r == 0 ? m.plan() : r == 1 ? m.template plan<A>() : m.plan((RegionID) 2);
	}

	// ---- append labels: 2 distinct (origin, destination, kind[, payload]) combinations per region --------
	template <typename Q, typename Dummy = void> struct Labels;

	template <typename Dummy> struct Labels<void, Dummy> {
		static bool append(Plan& p, int r, int l, RTask& t) {
			switch (r * 2 + l) {
			case 0: t = RTask{sA,  sB,  (int) TransitionType::CHANGE,   false, 0}; return p.change(sA, sB);
			case 1: t = RTask{sB,  sA,  (int) TransitionType::RESTART,  false, 0}; return p.template restart<B, A>();
			case 2: t = RTask{sA1, sA2, (int) TransitionType::RESUME,   false, 0}; return p.template resume<A1>(sA2);
			case 3: t = RTask{sA2, sA1, (int) TransitionType::SCHEDULE, false, 0}; return p.schedule(sA2, sA1);
			case 4: t = RTask{sB1, sB2, (int) TransitionType::SELECT,   false, 0}; return p.template select<B1, B2>();
			default: t = RTask{sB2, sB1, (int) TransitionType::CHANGE,  false, 0}; return p.template change<B2, B1>();
			}
		}
	};
	template <typename Dummy> struct Labels<int, Dummy> {
		static bool append(Plan& p, int r, int l, RTask& t) {
			switch (r * 2 + l) {
			case 0: t = RTask{sA,  sB,  (int) TransitionType::CHANGE,   true, 100};        return p.changeWith(sA, sB, 100);
			case 1: t = RTask{sB,  sA,  (int) TransitionType::RESTART,  true, -7};         return p.template restartWith<B, A>(-7);
			case 2: t = RTask{sA1, sA2, (int) TransitionType::RESUME,   true, 11};         return p.template resumeWith<A1>(sA2, 11);
			case 3: t = RTask{sA2, sA1, (int) TransitionType::SCHEDULE, false, 0};         return p.schedule(sA2, sA1);  // no payload given
			case 4: t = RTask{sB1, sB2, (int) TransitionType::SELECT,   true, 0};          return p.template selectWith<B1, B2>(0);  // payload 0 is a payload
			default: t = RTask{sB2, sB1, (int) TransitionType::SCHEDULE, true, 2147483647}; return p.scheduleWith(sB2, sB1, 2147483647);
			}
		}
	};

	// ---- concrete state key ----------------------------------------------------------------------------
	// pool counters | per region: bounds + slots in list order | per slot: contents (on a list) or pool links
	// (vacant) + plan links | planExists bits.  Pure reads of the raw members, bounded walks.
	static std::string key(const Instance& m) {
		const PlanData& pd = m._core.planData;
		std::string k = ix(pd.tasks._vacantHead) + "," + ix(pd.tasks._vacantTail) + "," + ix(pd.tasks._last) + "," + ix(pd.tasks._count) + "|";
		bool live[C];
		for (Long i = 0; i < C; ++i) live[i] = false;
		for (int r = 0; r < REGIONS; ++r) {
			const auto& b = pd.taskBounds._items[r];
			k += "R" + ix(b.first) + ":" + ix(b.last) + "[";
			Long idx = b.first;
			for (Long steps = 0; steps < C && idx < C; ++steps) {
				k += num((long) idx); k += ' ';
				live[idx] = true;
				idx = pd.taskLinks._items[idx].next;
			}
			k += "]";
		}
		k += "|";
		for (Long i = 0; i < C; ++i) {
			const auto& it = pd.tasks._items[i];
			if (live[i]) k += "L" + taskStr(TaskRead<P>::read(it));
			else k += "v" + ix(it.prev) + ":" + ix(it.next);
			k += "/" + ix(pd.taskLinks._items[i].prev) + ":" + ix(pd.taskLinks._items[i].next) + ";";
		}
		k += "|E";
		for (int r = 0; r < REGIONS; ++r) k += ((pd.planExists._storage[r / 8] >> (r % 8)) & 1) ? "1" : "0";
		return k;
	}

	// ---- structural invariant on the raw links -----------------------------------------------------------
	static bool structure(const Instance& m, const std::vector<Op>& h) {
		const PlanData& pd = m._core.planData;
		bool ok = true;
		int owner[C];
		for (Long i = 0; i < C; ++i) owner[i] = -1;
		Long total = 0;
		for (int r = 0; r < REGIONS; ++r) {
			const auto& b = pd.taskBounds._items[r];
			const std::string R = "region " + num(r) + ": ";
			if ((b.first == hfsm2::INVALID_LONG) != (b.last == hfsm2::INVALID_LONG)) {
				fail("links/bounds", R + "bounds first=" + ix(b.first) + " last=" + ix(b.last) + ": only one end is INVALID", h);
				ok = false; continue;
			}
			if (b.first == hfsm2::INVALID_LONG) continue;
			if (b.first >= C || b.last >= C) { fail("links/range", R + "bounds first=" + ix(b.first) + " last=" + ix(b.last) + " outside the pool", h); ok = false; continue; }
			Long prev = hfsm2::INVALID_LONG;
			Long idx = b.first;
			for (;;) {
				if (owner[idx] == r) { fail("links/cycle", R + "list revisits slot " + vt::str(idx), h); ok = false; break; }
				if (owner[idx] >= 0) { fail("links/disjoint", R + "slot " + vt::str(idx) + " is also on the list of region " + vt::str(owner[idx]), h); ok = false; break; }
				owner[idx] = r;
				++total;
				const auto& l = pd.taskLinks._items[idx];
				if (l.prev != prev) { fail("links/prev-next", R + "slot " + vt::str(idx) + " has prev=" + ix(l.prev) + " but is reached from " + ix(prev), h); ok = false; }
				if (l.next == hfsm2::INVALID_LONG) {
					if (b.last != idx) { fail("links/bounds", R + "list ends at slot " + vt::str(idx) + " but bounds.last=" + ix(b.last), h); ok = false; }
					break;
				}
				if (l.next >= C) { fail("links/range", R + "slot " + vt::str(idx) + " has next=" + ix(l.next) + " outside the pool", h); ok = false; break; }
				prev = idx;
				idx = l.next;
			}
		}
		if (total != pd.tasks.count()) {
			fail("links/count", "list lengths add up to " + vt::str(total) + " but tasks.count()=" + vt::str(pd.tasks.count()), h);
			ok = false;
		}
		// vacant list of the pool: must not contain a slot that is on a region list (the only thing C07 says about it)
		if (ok && pd.tasks._count < C) {
			bool seen[C];
			for (Long i = 0; i < C; ++i) seen[i] = false;
			for (Long c = pd.tasks._vacantHead; ; ) {
				if (c >= C) break;     // pool-internal corruption: C19's clause, its consequences for the plans show up later
				if (owner[c] >= 0) { fail("links/vacant-overlap", "slot " + vt::str(c) + " is on the list of region " + vt::str(owner[c]) + " and on the vacant list", h); ok = false; break; }
				if (seen[c]) break;    // ditto
				seen[c] = true;
				if (c == pd.tasks._vacantTail) break;
				c = pd.tasks._items[c].next;
			}
		}
		return ok;
	}

	// ---- observations through the public iterators -------------------------------------------------------
	static bool sameList(const RList& got, bool truncated, const RList& want, const std::string& fingerprint,
						 const std::string& what, int r, const std::vector<Op>& h) {
		if (!truncated && got == want) return true;
		fail(fingerprint, "region " + vt::str(r) + ": " + what + " yields " + listStr(got) + (truncated ? "... (does not terminate)" : "") +
			 " expected " + listStr(want), h);
		return false;
	}

	static bool observe(Instance& m, const Ref& ref, const std::vector<Op>& h) {
		bool ok = structure(m, h);
		const long b0 = vt::breaks().count;
		for (int r = 0; r < REGIONS; ++r) {
			const RList& want = ref[r];
			Plan p = planOf(m, r);
			const Plan& cp = p;
			CPlan cplan{m._core.planData, (RegionID) r};
			// emptiness
			const bool e1 = !static_cast<bool>(p), e2 = !static_cast<bool>(cplan);
			if (e1 != want.empty()) { fail("plan/emptiness", "region " + vt::str(r) + ": Plan::operator bool()=" + vt::str(!e1) + " with " + vt::str(want.size()) + " task(s)", h); ok = false; }
			if (e2 != want.empty()) { fail("plan/emptiness-cplan", "region " + vt::str(r) + ": CPlan::operator bool()=" + vt::str(!e2) + " with " + vt::str(want.size()) + " task(s)", h); ok = false; }
			// iteration: non-const Iterator, PlanT::CIterator, CPlanT::Iterator
			{
				RList got; bool trunc = false;
				for (auto it = p.begin(); it; ++it) { if ((Long) got.size() > C) { trunc = true; break; } got.push_back(TaskRead<P>::read(*it)); }
				ok = sameList(got, trunc, want, "plan/iteration-order", "Plan::Iterator", r, h) && ok;
			}
			{
				RList got; bool trunc = false;
				for (auto it = cp.begin(); it; ++it) { if ((Long) got.size() > C) { trunc = true; break; } got.push_back(TaskRead<P>::read(*it)); }
				ok = sameList(got, trunc, want, "plan/const-iteration", "Plan::CIterator (const Plan)", r, h) && ok;
			}
			{
				RList got; bool trunc = false;
				for (auto it = cplan.begin(); it; ++it) { if ((Long) got.size() > C) { trunc = true; break; } got.push_back(TaskRead<P>::read(*it)); }
				ok = sameList(got, trunc, want, "plan/cplan-iteration", "CPlan::Iterator", r, h) && ok;
			}
		}
		if (vt::breaks().count != b0) {
			fail("assert/iterate", std::string("library assertion while iterating: ") + vt::breaks().file + ":" + vt::str(vt::breaks().line), h);
			vt::breaks().count = b0;
			ok = false;
		}
		return ok;
	}

	// ---- apply one op to (instance, reference) -----------------------------------------------------------
	// h = history including op (for reports). check=false: silent replay of an already validated history.
	static bool apply(Instance& m, Ref& ref, const Op& op, const std::vector<Op>& h, bool check) {
		const long b0 = vt::breaks().count;
		bool ok = true;
		const char* opName = "append";
		Plan p = planOf(m, op.region);
		if (op.kind == 'a') {
			size_t total = 0;
			for (const RList& l : ref) total += l.size();
			const bool room = total < (size_t) C;
			const std::string before = check && !room ? key(m) : std::string();
			RTask t;
			const bool res = Labels<P>::append(p, op.region, op.arg, t);
			if (room) {
				ref[op.region].push_back(t);
				if (!res && check) { fail("plan/append-refused", "append returned false with " + vt::str(total) + " of " + vt::str(C) + " tasks stored", h); ok = false; }
			} else if (check) {
				if (res) { fail("plan/append-full", "append returned true with the machine-wide capacity " + vt::str(C) + " exhausted", h); ok = false; }
				else if (key(m) != before) { fail("plan/append-full", "append returned false at capacity but changed the storage: " + before + " -> " + key(m), h); ok = false; }
			}
		} else if (op.kind == 'r') {
			opName = "remove";
			const RList old = ref[op.region];
			RList visited, kept;
			bool trunc = false;
			int k = 0;
			for (auto it = p.begin(); it; ++it, ++k) {
				if (k > (int) C) { trunc = true; break; }
				visited.push_back(TaskRead<P>::read(*it));
				if (op.arg >> k & 1) it.remove();
			}
			for (size_t i = 0; i < old.size(); ++i)
				if (!(op.arg >> i & 1)) kept.push_back(old[i]);
			ref[op.region] = kept;
			if (check) ok = sameList(visited, trunc, old, "plan/remove-visit", "iteration with remove()", op.region, h) && ok;
		} else if (op.kind == 'x') {
			opName = "reset";
			m._core.planData.clear();
			for (RList& l : ref) l.clear();
		} else {
			opName = "clear";
			p.clear();
			ref[op.region].clear();
		}
		if (vt::breaks().count != b0) {
			if (check) fail(std::string("assert/") + opName, std::string("library assertion ") + vt::breaks().file + ":" + vt::str(vt::breaks().line), h);
			vt::breaks().count = b0;
			ok = false;
		}
		return ok;
	}

	static bool replay(Instance& m, Ref& ref, const std::vector<Op>& h) {
		bool ok = true;
		for (const Op& op : h) { ok = apply(m, ref, op, h, false) && ok; ++g_replayedOps; }
		return ok;
	}

	static std::vector<Op> menu(const Ref& ref, bool multiRemove) {
		std::vector<Op> mn;
		for (int r = 0; r < REGIONS; ++r)
			for (int l = 0; l < 2; ++l) mn.push_back(Op{'a', r, l});
		for (int r = 0; r < REGIONS; ++r) {
			const int n = (int) ref[r].size();
			for (int i = 0; i < n; ++i) mn.push_back(Op{'r', r, 1 << i});
			if (multiRemove)
				for (int mask = 1; mask < (1 << n); ++mask)
					if (mask & (mask - 1)) mn.push_back(Op{'r', r, mask});
		}
		for (int r = 0; r < REGIONS; ++r) mn.push_back(Op{'c', r, 0});
		mn.push_back(Op{'x', 0, 0});
		return mn;
	}

	struct Node { std::vector<Op> hist; std::string key; };

	// replay mode: apply the ops of a replay file with all oracles on, print the storage after each op
	static void replayMain(const std::vector<Op>& ops) {
		Instance m; Ref ref(REGIONS);
		std::vector<Op> h;
		observe(m, ref, h);
		printf("{\"type\":\"step\",\"op\":\"\",\"key\":\"%s\"}\n", vt::jesc(key(m)).c_str());
		for (const Op& op : ops) {
			if (op.region < 0 || op.region >= REGIONS || (op.kind == 'a' && (op.arg < 0 || op.arg > 1))) { printf("{\"type\":\"garbage\",\"line\":\"bad op\"}\n"); return; }
			h.push_back(op);
			const bool ok = apply(m, ref, op, h, true) && observe(m, ref, h);
			std::string lists;
			for (int r = 0; r < REGIONS; ++r) lists += (r ? " " : "") + listStr(ref[r]);
			printf("{\"type\":\"step\",\"op\":\"%s\",\"ok\":%s,\"reference\":\"%s\",\"key\":\"%s\"}\n", opStr(op).c_str(), ok ? "true" : "false", lists.c_str(), vt::jesc(key(m)).c_str());
			if (!ok) break;
		}
	}

	static void engineError(const std::string& msg, const std::vector<Op>& h) {
		++g_engineErrors;
		printf("{\"type\":\"engine_error\",\"machine\":\"%s\",\"message\":\"%s\",\"ops\":%s}\n", cfg().c_str(), vt::jesc(msg).c_str(), opsJson(h).c_str());
	}

	static void run(bool multiRemove) {
		static_assert(FSM::template regionId<R>() == 0 && FSM::template regionId<A>() == 1 && FSM::template regionId<B>() == 2, "region ids");
		static_assert(FSM::template stateId<A>() == sA && FSM::template stateId<A1>() == sA1 && FSM::template stateId<A2>() == sA2 &&
					  FSM::template stateId<B>() == sB && FSM::template stateId<B1>() == sB1 && FSM::template stateId<B2>() == sB2, "state ids");
		static_assert(PlanData::TASK_CAPACITY == C && PlanData::REGION_COUNT == REGIONS, "capacity / regions");

		std::unordered_set<std::string> seen;
		std::deque<Node> q;
		long local = 0, localEdges = 0, maxDepth = 0;
		std::string deepest;
		{
			const long b0 = vt::breaks().count;
			Instance m;
			if (vt::breaks().count != b0) { fail("assert/construct", "library assertion while constructing the instance", {}); vt::breaks().count = b0; }
			Ref ref(REGIONS);
			if (!observe(m, ref, {})) return;
			Node n0{{}, key(m)};
			seen.insert(n0.key);
			q.push_back(n0);
		}
		while (!q.empty()) {
			Node cur = q.front(); q.pop_front();
			++g_states; ++local;
			if ((long) cur.hist.size() > maxDepth) maxDepth = (long) cur.hist.size();
			std::vector<Op> mn;
			{	// re-create the state once to validate the representation and to build the op menu
				Instance m; Ref ref(REGIONS);
				const bool rok = replay(m, ref, cur.hist);
				const std::string k = key(m);
				if (!rok || k != cur.key) { engineError("replaying a stored history does not reproduce its state: " + k + " vs " + cur.key, cur.hist); continue; }
				mn = menu(ref, multiRemove);
			}
			for (const Op& op : mn) {
				Instance m; Ref ref(REGIONS);
				replay(m, ref, cur.hist);
				std::vector<Op> h = cur.hist;
				h.push_back(op);
				bool ok = apply(m, ref, op, h, true);
				++g_edges; ++localEdges; ++g_compared;
				ok = ok && observe(m, ref, h);  // a failed op contract already condemns the state
				if (!ok) continue;  // violating states are reported and not expanded
				const std::string k = key(m);
				if (seen.insert(k).second) {
					deepest = "{\"machine\":\"" + cfg() + "\",\"ops\":" + opsJson(h) + ",\"key\":\"" + vt::jesc(k) + "\"}";
					q.push_back(Node{h, k});
				}
			}
		}
		if (!deepest.empty()) g_samples.push_back(deepest);  // the last state BFS discovered = a deepest one
		printf("{\"type\":\"sub\",\"machine\":\"%s\",\"states\":%ld,\"transitions\":%ld,\"max_depth\":%ld,\"multi_remove\":%s}\n",
			   cfg().c_str(), local, localEdges, maxDepth, multiRemove ? "true" : "false");
		fflush(stdout);
	}
};

static bool parseOp(const std::string& t, Op& op) {
	if (t.size() < 2 || (t[0] != 'a' && t[0] != 'r' && t[0] != 'c' && t[0] != 'x') || t[1] < '0' || t[1] > '9') return false;
	op = Op{t[0], t[1] - '0', 0};
	if (t[0] == 'c' || t[0] == 'x') return t.size() == 2;
	if (t.size() < 4 || t[2] != ':') return false;
	for (size_t i = 3; i < t.size(); ++i) {
		if (t[i] == '+') continue;
		if (t[i] < '0' || t[i] > '9') return false;
		if (t[0] == 'a') op.arg = t[i] - '0'; else op.arg |= 1 << (t[i] - '0');
	}
	return true;
}

template <Long C>
static bool replayOn(const std::string& machine, const std::vector<Op>& ops) {
	if (machine == W<C, void>::cfg()) { W<C, void>::replayMain(ops); return true; }
	if (machine == W<C, int>::cfg()) { W<C, int>::replayMain(ops); return true; }
	return false;
}

int main(int argc, char** argv) {
	if (argc > 2 && std::string(argv[1]) == "replay") {  // replay <machine> <op>...
		std::vector<Op> ops;
		for (int i = 3; i < argc; ++i) { Op op; if (!parseOp(argv[i], op)) { fprintf(stderr, "bad op %s\n", argv[i]); return 2; } ops.push_back(op); }
		const std::string mc = argv[2];
		if (!(replayOn<1>(mc, ops) || replayOn<2>(mc, ops) || replayOn<3>(mc, ops) || replayOn<4>(mc, ops) || replayOn<5>(mc, ops))) { fprintf(stderr, "unknown machine %s\n", mc.c_str()); return 2; }
		printf("{\"type\":\"summary\",\"states\":0,\"transitions\":%d,\"compared\":%d,\"violations\":%ld,\"samples\":[]}\n", (int) ops.size(), (int) ops.size(), vt::rep().violations);
		return vt::rep().violations ? 1 : 0;
	}
	const bool thorough = argc > 1 && std::string(argv[1]) == "thorough";
	W<1, void>::run(true);
	W<2, void>::run(true);
	W<3, void>::run(true);
	W<1, int>::run(true);
	W<2, int>::run(true);
	W<3, int>::run(true);
	if (thorough) {
		W<4, void>::run(true);
		W<4, int>::run(true);
		W<5, void>::run(true);
		W<5, int>::run(true);
	}
	std::string samples = "[";
	for (size_t i = 0; i < g_samples.size(); ++i) samples += (i ? "," : "") + g_samples[i];
	samples += "]";
	printf("{\"type\":\"summary\",\"states\":%ld,\"transitions\":%ld,\"compared\":%ld,\"replayed_ops\":%ld,\"engine_errors\":%ld,\"violations\":%ld,\"samples\":%s}\n",
		   g_states, g_edges, g_compared, g_replayedOps, g_engineErrors, vt::rep().violations, samples.c_str());
	return 0;
}
