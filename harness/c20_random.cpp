// C20: bundled random generators (splitmix sequencers, xoshiro256+/** and xoshiro128+/**, uniform()).
// The real hfsm2::detail::{SimpleRandomT,FloatRandomT,IntRandomT}<8> and <4> are both instantiated
// explicitly on this 64-bit build and compared, seed by seed and output by output, with an independent
// transcription of the published reference code (namespace ref, the trusted base of this check).
//
//   c20_random quick|thorough            the enumeration (sizes are reduced when built with -DVT_REDUCED)
//   c20_random replay seed32|seed64|uniform32|uniform64 <value>     one case, long window
#define HFSM2_ENABLE_UTILITY_THEORY
#ifdef VT_ASSERT
#define HFSM2_ENABLE_ASSERT
#endif
#ifdef VT_DEV_HEADER
#include <hfsm2/machine_dev.hpp>
#else
#include <hfsm2/machine.hpp>
#endif
#include "harness/common.hpp"
#include <algorithm>
#include <array>
#include <atomic>
#include <cinttypes>
#include <mutex>
#include <thread>
#include <utility>

// ==== trusted base: published reference algorithms =====================================================
// splitmix64.c, xoshiro256plus.c, xoshiro256starstar.c, xoshiro128plus.c, xoshiro128starstar.c
// (Blackman & Vigna, prng.di.unimi.it, public domain) and the 32-bit "splitmix32" from the prng
// mailing-list thread the library cites: Weyl sequence with the 32-bit golden ratio 0x9E3779B9 followed by
// the MurmurHash3 32-bit finaliser (fmix32: >>16, *0x85EBCA6B, >>13, *0xC2B2AE35, >>16).
namespace ref {

struct SplitMix64 {
	uint64_t x;
	uint64_t next() {
		uint64_t z = (x += UINT64_C(0x9E3779B97F4A7C15));
		z = (z ^ (z >> 30)) * UINT64_C(0xBF58476D1CE4E5B9);
		z = (z ^ (z >> 27)) * UINT64_C(0x94D049BB133111EB);
		return z ^ (z >> 31);
	}
};

struct SplitMix32 {
	uint32_t x;
	uint32_t next() {
		uint32_t z = (x += UINT32_C(0x9E3779B9));
		z = (z ^ (z >> 16)) * UINT32_C(0x85EBCA6B);
		z = (z ^ (z >> 13)) * UINT32_C(0xC2B2AE35);
		return z ^ (z >> 16);
	}
};

template <typename W> struct Par;
template <> struct Par<uint64_t> {  // xoshiro256: a = 17, b = 45, jump() == 2^128 next()
	enum { BITS = 64, A = 17, B = 45 };
	static uint64_t jumpWord(int i) {
		static const uint64_t J[4] = {UINT64_C(0x180EC6D33CFD0ABA), UINT64_C(0xD5A61266F0C9392C),
									  UINT64_C(0xA9582618E03FC9AA), UINT64_C(0x39ABDC4529B1661C)};
		return J[i];
	}
};
template <> struct Par<uint32_t> {  // xoshiro128: a = 9, b = 11, jump() == 2^64 next()
	enum { BITS = 32, A = 9, B = 11 };
	static uint32_t jumpWord(int i) {
		static const uint32_t J[4] = {UINT32_C(0x8764000B), UINT32_C(0xF542D2D3), UINT32_C(0x6FA035C3), UINT32_C(0x77F2DB5B)};
		return J[i];
	}
};

template <typename W>
struct Xoshiro {
	W s[4];
	static W rotl(const W x, const int k) { return W(x << k) | W(x >> (Par<W>::BITS - k)); }
	W plus() const { return W(s[0] + s[3]); }                 // xoshiroNNN+  output function
	W starstar() const { return W(rotl(W(s[1] * 5), 7) * 9); }  // xoshiroNNN** output function
	void step() {
		const W t = W(s[1] << Par<W>::A);
		s[2] ^= s[0];
		s[3] ^= s[1];
		s[1] ^= s[2];
		s[0] ^= s[3];
		s[2] ^= t;
		s[3] = rotl(s[3], Par<W>::B);
	}
	void jump() {
		W s0 = 0, s1 = 0, s2 = 0, s3 = 0;
		for (int i = 0; i < 4; ++i)
			for (int b = 0; b < Par<W>::BITS; ++b) {
				if (Par<W>::jumpWord(i) & (W(1) << b)) { s0 ^= s[0]; s1 ^= s[1]; s2 ^= s[2]; s3 ^= s[3]; }
				step();
			}
		s[0] = s0; s[1] = s1; s[2] = s2; s[3] = s3;
	}
};

// uniform(): "top 23 (52) bits become the mantissa of a number in [1,2), minus 1" == m * 2^-23 (2^-52), exactly
inline float uniform32(const uint32_t x) { return (float) (x >> 9) * (1.0f / 8388608.0f); }
inline double uniform64(const uint64_t x) { return (double) (x >> 12) * (1.0 / 4503599627370496.0); }

} // namespace ref

// ==== glue ============================================================================================

using hfsm2::detail::SimpleRandomT;
using hfsm2::detail::FloatRandomT;
using hfsm2::detail::IntRandomT;

template <typename W> struct Tr;
template <> struct Tr<uint64_t> {
	enum { N = 8, BITS = 64, IDX = 1 };
	static uint64_t golden() { return UINT64_C(0x9E3779B97F4A7C15); }
	using Mix = ref::SplitMix64;
	using Simple = SimpleRandomT<8>;
	using FloatR = FloatRandomT<8>;
	using IntR = IntRandomT<8>;
	static uint64_t raw(Simple& s) { return s.raw64(); }
	static uint64_t nonzero(Simple& s) { return s.uint64(); }
	template <typename G> static uint64_t word(G& g) { return g.uint64(); }
	static const char* sm() { return "splitmix64"; }
	static const char* sd() { return "seed64"; }
	static const char* gen(bool ss) { return ss ? "xoshiro256starstar" : "xoshiro256plus"; }
};
template <> struct Tr<uint32_t> {
	enum { N = 4, BITS = 32, IDX = 0 };
	static uint32_t golden() { return UINT32_C(0x9E3779B9); }
	using Mix = ref::SplitMix32;
	using Simple = SimpleRandomT<4>;
	using FloatR = FloatRandomT<4>;
	using IntR = IntRandomT<4>;
	static uint32_t raw(Simple& s) { return s.raw32(); }
	static uint32_t nonzero(Simple& s) { return s.uint32(); }
	template <typename G> static uint32_t word(G& g) { return g.uint32(); }
	static const char* sm() { return "splitmix32"; }
	static const char* sd() { return "seed32"; }
	static const char* gen(bool ss) { return ss ? "xoshiro128starstar" : "xoshiro128plus"; }
};

static std::string hex(const uint64_t v, const int bits = 64) {
	char b[32];
	if (bits == 32) snprintf(b, sizeof b, "\"0x%08" PRIx64 "\"", v);
	else snprintf(b, sizeof b, "\"0x%016" PRIx64 "\"", v);
	return b;
}
template <typename W> static std::string hexw(const W v) { return hex(v, sizeof(W) * 8); }
template <typename W> static std::string hex4(const W* s) { return "[" + hexw(s[0]) + "," + hexw(s[1]) + "," + hexw(s[2]) + "," + hexw(s[3]) + "]"; }

static inline uint32_t bitsOf(const float f) { uint32_t u; memcpy(&u, &f, sizeof u); return u; }
static inline uint64_t bitsOf(const double d) { uint64_t u; memcpy(&u, &d, sizeof u); return u; }

// word-wise FNV-1a (64 bit); per-case hashes are finalised and *added*, so the sum is independent of threading
static constexpr uint64_t FNV_OFF = UINT64_C(0xCBF29CE484222325), FNV_PRIME = UINT64_C(0x100000001B3);
static inline uint64_t fnv(const uint64_t h, const uint64_t v) { return (h ^ v) * FNV_PRIME; }
static inline uint64_t fin(uint64_t h) { h ^= h >> 29; h *= FNV_PRIME; h ^= h >> 32; return h; }

// ---- violations: O(1) slot per fingerprint, only the first three of each are formatted -------------------
enum Clause {
	SM_STREAM, SM_NONZERO, SM_ZERO, SEED_STATE, SEED_ALLZERO,
	P_STREAM, P_JUMP, P_FLOAT, SS_STREAM, SS_JUMP, SS_FLOAT,
	U_RANGE, U_VALUE, NCLAUSE
};
struct Slot { std::string name; std::atomic<long> n{0}; };
static Slot g_slot[2][NCLAUSE];
static std::mutex g_mx;

static void initSlots() {
	for (int w = 0; w < 2; ++w) {
		const std::string sm = w ? "splitmix64" : "splitmix32", sd = w ? "seed64" : "seed32";
		const std::string p = w ? "xoshiro256plus" : "xoshiro128plus", ss = w ? "xoshiro256starstar" : "xoshiro128starstar";
		const std::string u = w ? "uniform64" : "uniform32";
		Slot* s = g_slot[w];
		s[SM_STREAM].name = sm + "/stream";        s[SM_NONZERO].name = sm + "/nonzero-stream"; s[SM_ZERO].name = sm + "/zero-output";
		s[SEED_STATE].name = sd + "/state";        s[SEED_ALLZERO].name = sd + "/all-zero";
		s[P_STREAM].name = p + "/stream";          s[P_JUMP].name = p + "/jump";                  s[P_FLOAT].name = p + "/float-range";
		s[SS_STREAM].name = ss + "/stream";        s[SS_JUMP].name = ss + "/jump";                s[SS_FLOAT].name = ss + "/float-range";
		s[U_RANGE].name = u + "/range";            s[U_VALUE].name = u + "/value";
	}
}
// true: the caller should format and emit this occurrence
static inline bool note(const int w, const Clause c) { return g_slot[w][c].n.fetch_add(1, std::memory_order_relaxed) < 3; }
static void emit(const int w, const Clause c, const std::string& msg, const std::string& replayFields) {
	std::lock_guard<std::mutex> l(g_mx);
	std::string m = msg;  // numbers are formatted as quoted JSON strings; the message text shows them bare
	m.erase(std::remove(m.begin(), m.end(), '"'), m.end());
	vt::rep().violation(g_slot[w][c].name, m, "{\"harness\":\"c20_random\"," + replayFields + "}");
}
static long totalViolations() {
	long n = 0;
	for (auto& row : g_slot) for (auto& s : row) n += s.n.load();
	return n;
}

// ---- per-thread accumulators --------------------------------------------------------------------------
struct Acc {
	uint64_t evals = 0, digest = 0, wide = 0, seeds = 0, outputs = 0, jumps = 0, floats = 0, uargs = 0;
	uint64_t order[4] = {0, 0, 0, 0};  // 32-bit uint64(): first draw is the high word | the low word | undecidable (equal draws) | neither
	std::set<std::pair<int, uint64_t>> rejects;  // (width, seed) whose seeding really rejected a zero sequencer output
	std::set<std::pair<int, uint64_t>> bounds;   // (width, mantissa field) of uniform() arguments at a binade edge
	void merge(const Acc& o) {
		evals += o.evals; digest += o.digest; wide += o.wide; seeds += o.seeds; outputs += o.outputs;
		jumps += o.jumps; floats += o.floats; uargs += o.uargs;
		for (int i = 0; i < 4; ++i) order[i] += o.order[i];
		rejects.insert(o.rejects.begin(), o.rejects.end());
		bounds.insert(o.bounds.begin(), o.bounds.end());
	}
};

static unsigned g_threads = 1;

template <typename F>
static Acc parallelFor(const uint64_t n, F f) {
	std::vector<Acc> accs(g_threads);
	std::atomic<uint64_t> next{0};
	const uint64_t chunk = n >= (UINT64_C(1) << 22) ? (1 << 14) : 64;
	auto work = [&](const unsigned t) {
		Acc a;
		for (;;) {
			const uint64_t b = next.fetch_add(chunk);
			if (b >= n) break;
			const uint64_t e = std::min(n, b + chunk);
			for (uint64_t i = b; i < e; ++i) f(a, i);
		}
		accs[t] = a;
	};
	std::vector<std::thread> ts;
	for (unsigned t = 1; t < g_threads; ++t) ts.emplace_back(work, t);
	work(0);
	for (auto& t : ts) t.join();
	Acc total;
	for (auto& a : accs) total.merge(a);
	return total;
}

// ==== one seed =========================================================================================

// the library documents that the state words are four successive *non-zero* sequencer outputs
template <typename W>
static int seedRef(const W seed, W (&s)[4]) {
	typename Tr<W>::Mix m{seed};
	int rejects = 0;
	for (int i = 0; i < 4; ++i) {
		W z;
		while ((z = m.next()) == 0) ++rejects;
		s[i] = z;
	}
	return rejects;
}

template <typename W> static std::string seedField(const W seed) { return std::string("\"case\":\"") + Tr<W>::sd() + "\",\"seed\":" + hexw(seed); }

static inline float nextOrFloat32(FloatRandomT<8>& g) { return g.next(); }
static inline float nextOrFloat32(FloatRandomT<4>& g) { return g.next(); }
static inline float nextOrFloat32(IntRandomT<8>& g) { return g.float32(); }
static inline float nextOrFloat32(IntRandomT<4>& g) { return g.float32(); }

template <typename W, typename G, bool SS>
static void genCheck(const W seed, const W (&rs)[4], const int nOut, const bool longForm, Acc& acc, uint64_t& h, uint64_t& hw) {
	using T = Tr<W>;
	const int wi = T::IDX;
	const char* const gname = T::gen(SS);
	G lib{seed};
	ref::Xoshiro<W> rf{{rs[0], rs[1], rs[2], rs[3]}};
	++acc.evals;
	for (int i = 0; i < 4; ++i) h = fnv(h, lib._state[i]);
	if ((lib._state[0] | lib._state[1] | lib._state[2] | lib._state[3]) == 0 && note(wi, SEED_ALLZERO))
		emit(wi, SEED_ALLZERO, std::string(gname) + " seeded with " + hexw(seed) + " has an all-zero state", seedField(seed));
	if (lib._state[0] != rs[0] || lib._state[1] != rs[1] || lib._state[2] != rs[2] || lib._state[3] != rs[3]) {
		if (note(wi, SEED_STATE))
			emit(wi, SEED_STATE, std::string(gname) + " seeded with " + hexw(seed) + ": state " + hex4(lib._state) +
				 ", four successive non-zero " + T::sm() + " outputs are " + hex4(rs), seedField(seed) + ",\"generator\":\"" + gname + "\"");
		return;
	}
	// integer stream (+ three interleaved jumps in the long form)
	for (int i = 0; i < nOut; ++i) {
		if (longForm && nOut >= 4 && (i == nOut / 4 || i == nOut / 2 || i == nOut - nOut / 4)) {
			lib.jump();
			rf.jump();
			++acc.jumps; ++acc.evals;
			for (int k = 0; k < 4; ++k) h = fnv(h, lib._state[k]);
			if (lib._state[0] != rf.s[0] || lib._state[1] != rf.s[1] || lib._state[2] != rf.s[2] || lib._state[3] != rf.s[3]) {
				if (note(wi, SS ? SS_JUMP : P_JUMP))
					emit(wi, SS ? SS_JUMP : P_JUMP, std::string(gname) + " seed " + hexw(seed) + ": jump() before output " + vt::str(i) +
						 " gives state " + hex4(lib._state) + ", reference " + hex4(rf.s),
						 seedField(seed) + ",\"generator\":\"" + gname + "\",\"position\":" + vt::str(i));
				return;
			}
		}
		const W a = T::word(lib);
		const W b = SS ? rf.starstar() : rf.plus();
		rf.step();
		++acc.outputs; ++acc.evals;
		h = fnv(h, a);
		if (a != b) {
			if (note(wi, SS ? SS_STREAM : P_STREAM))
				emit(wi, SS ? SS_STREAM : P_STREAM, std::string(gname) + " seed " + hexw(seed) + ": output " + vt::str(i) + " is " + hexw(a) +
					 ", published algorithm gives " + hexw(b),
					 seedField(seed) + ",\"generator\":\"" + gname + "\",\"position\":" + vt::str(i) + ",\"got\":" + hexw(a) + ",\"expected\":" + hexw(b));
			return;
		}
	}
	// floating-point accessors on a second instance (array constructor, state verified above):
	// promised: every value in [0,1). Which bits they are made of is not promised, so values only go to the digest.
	G fl{rs};
	for (int i = 0; i < nOut; ++i) {
		bool ok = true;
		switch (i & 3) {
		case 0: { const float v = fl.float32(); ok = v >= 0.0f && v < 1.0f; h = fnv(h, bitsOf(v)); ++acc.floats; break; }
		case 1: { const double v = fl.float64(); ok = v >= 0.0 && v < 1.0; ++acc.floats;
				  if (T::BITS == 32) hw = fnv(hw, bitsOf(v)); else h = fnv(h, bitsOf(v));
				  break; }
		case 2: { const float v = nextOrFloat32(fl); ok = v >= 0.0f && v < 1.0f; h = fnv(h, bitsOf(v)); ++acc.floats; break; }
		default:  // the "other width" integer accessor: determinism only
			if (T::BITS == 32) hw = fnv(hw, fl.uint64()); else h = fnv(h, fl.uint32());
			break;
		}
		++acc.evals;
		if (!ok && note(wi, SS ? SS_FLOAT : P_FLOAT))
			emit(wi, SS ? SS_FLOAT : P_FLOAT, std::string(gname) + " seed " + hexw(seed) + ": floating-point call " + vt::str(i) + " returned a value outside [0,1)",
				 seedField(seed) + ",\"generator\":\"" + gname + "\",\"position\":" + vt::str(i));
	}
	if (T::BITS == 32) {  // uint64() of the 32-bit variants is widen(uint32(), uint32()): record which draw became the high word
		G w{rs};
		const uint64_t v = w.uint64();
		ref::Xoshiro<W> r2{{rs[0], rs[1], rs[2], rs[3]}};
		const uint64_t d0 = SS ? r2.starstar() : r2.plus(); r2.step();
		const uint64_t d1 = SS ? r2.starstar() : r2.plus();
		hw = fnv(hw, v);
		++acc.order[d0 == d1 ? 2 : v == (d0 << 32 | d1) ? 0 : v == (d1 << 32 | d0) ? 1 : 3];
	}
}

template <typename W>
static void checkSeed(const W seed, const int nOut, const bool longForm, Acc& acc) {
	using T = Tr<W>;
	const int wi = T::IDX;
	uint64_t h = fnv(FNV_OFF ^ T::BITS, seed), hw = h;
	++acc.seeds;
	{  // raw sequencer == published splitmix
		typename T::Simple lib{seed};
		typename T::Mix rf{seed};
		for (int i = 0; i < 4; ++i) {
			const W a = T::raw(lib), b = rf.next();
			++acc.evals;
			h = fnv(h, a);
			if (a != b) {
				if (note(wi, SM_STREAM))
					emit(wi, SM_STREAM, std::string(T::sm()) + " seed " + hexw(seed) + ": raw output " + vt::str(i) + " is " + hexw(a) + ", published algorithm gives " + hexw(b),
						 seedField(seed) + ",\"position\":" + vt::str(i) + ",\"got\":" + hexw(a) + ",\"expected\":" + hexw(b));
				break;
			}
		}
	}
	W rs[4];
	const int rejects = seedRef<W>(seed, rs);
	{  // zero-rejecting accessor == published stream with the zeros removed, never zero
		typename T::Simple lib{seed};
		for (int i = 0; i < 4; ++i) {
			const W a = T::nonzero(lib);
			++acc.evals;
			h = fnv(h, a);
			if (a == 0 && note(wi, SM_ZERO))
				emit(wi, SM_ZERO, std::string(T::sm()) + " seed " + hexw(seed) + ": the zero-rejecting accessor returned 0 at draw " + vt::str(i), seedField(seed) + ",\"position\":" + vt::str(i));
			if (a != rs[i]) {
				if (note(wi, SM_NONZERO))
					emit(wi, SM_NONZERO, std::string(T::sm()) + " seed " + hexw(seed) + ": non-zero draw " + vt::str(i) + " is " + hexw(a) + ", expected " + hexw(rs[i]),
						 seedField(seed) + ",\"position\":" + vt::str(i) + ",\"got\":" + hexw(a) + ",\"expected\":" + hexw(rs[i]));
				break;
			}
		}
		// measured: the library's sequencer really took (4 + rejects) steps
		if (rejects > 0 && lib._state == W(seed + W(4 + rejects) * T::golden())) acc.rejects.insert({(int) T::BITS, (uint64_t) seed});
	}
	genCheck<W, typename T::FloatR, false>(seed, rs, nOut, longForm, acc, h, hw);
	genCheck<W, typename T::IntR, true>(seed, rs, nOut, longForm, acc, h, hw);
	acc.digest += fin(h);
	acc.wide += fin(hw);
}

// ==== uniform() ========================================================================================

static inline bool edge(const uint64_t m) { return m == 0 || (m & (m - 1)) == 0 || (m & (m + 1)) == 0; }

static void checkU32(const uint32_t x, Acc& acc) {
	const float r = hfsm2::detail::uniform(x);
	const float e = ref::uniform32(x);
	++acc.evals; ++acc.uargs;
	acc.digest += fin(fnv(fnv(FNV_OFF ^ 0x320, x), bitsOf(r)));
	if (!(r >= 0.0f && r < 1.0f) && note(0, U_RANGE))
		emit(0, U_RANGE, "uniform(uint32_t " + hexw(x) + ") = " + vt::str(r) + " is outside [0,1)", "\"case\":\"uniform32\",\"arg\":" + hexw(x));
	if (bitsOf(r) != bitsOf(e) && note(0, U_VALUE))
		emit(0, U_VALUE, "uniform(uint32_t " + hexw(x) + ") has bits " + hexw(bitsOf(r)) + ", (x >> 9) * 2^-23 has bits " + hexw(bitsOf(e)), "\"case\":\"uniform32\",\"arg\":" + hexw(x));
	const uint32_t m = x >> 9;
	if (edge(m)) acc.bounds.insert({32, m});
}

static void checkU64(const uint64_t x, Acc& acc) {
	const double r = hfsm2::detail::uniform(x);
	const double e = ref::uniform64(x);
	++acc.evals; ++acc.uargs;
	acc.digest += fin(fnv(fnv(FNV_OFF ^ 0x640, x), bitsOf(r)));
	if (!(r >= 0.0 && r < 1.0) && note(1, U_RANGE))
		emit(1, U_RANGE, "uniform(uint64_t " + hexw(x) + ") = " + vt::str(r) + " is outside [0,1)", "\"case\":\"uniform64\",\"arg\":" + hexw(x));
	if (bitsOf(r) != bitsOf(e) && note(1, U_VALUE))
		emit(1, U_VALUE, "uniform(uint64_t " + hexw(x) + ") has bits " + hexw(bitsOf(r)) + ", (x >> 12) * 2^-52 has bits " + hexw(bitsOf(e)), "\"case\":\"uniform64\",\"arg\":" + hexw(x));
	const uint64_t m = x >> 12;
	if (edge(m)) acc.bounds.insert({64, m});
}

// 2^c values spread over the 32-bit range: top c bits enumerate, the rest varies
static inline uint32_t spread(const uint64_t i, const int c) {
	if (c >= 32) return (uint32_t) i;
	return (uint32_t) (i << (32 - c)) | ((uint32_t) (i * UINT32_C(2654435761)) & ((UINT32_C(1) << (32 - c)) - 1));
}

template <typename W>
static std::vector<W> specials(const uint64_t below) {  // 2^k, 2^k+-1, ~0, the seeds whose k-th sequencer output is 0, two arbitrary; all >= below
	std::vector<W> v;
	for (int k = 0; k < (int) sizeof(W) * 8; ++k) {
		const W p = W(W(1) << k);
		v.push_back(p); v.push_back(W(p - 1)); v.push_back(W(p + 1));
	}
	v.push_back(W(~W(0)));
	for (int k = 1; k <= 6; ++k) v.push_back(W(W(0) - W(W(k) * Tr<W>::golden())));
	v.push_back(W(UINT64_C(0x0123456789ABCDEF)));
	v.push_back(W(UINT64_C(0xDEADBEEFCAFEF00D)));
	std::sort(v.begin(), v.end());
	v.erase(std::unique(v.begin(), v.end()), v.end());
	v.erase(std::remove_if(v.begin(), v.end(), [&](const W x) { return (uint64_t) x < below; }), v.end());
	return v;
}

// ==== self-check of the trusted base ====================================================================

static std::vector<std::string> g_selfFail;
static void expect(const bool ok, const std::string& what) { if (!ok) g_selfFail.push_back(what); }

// GF(2) transition matrix of the xoshiro state update, raised to 2^(bits/2) by repeated squaring:
// "jump() is equivalent to 2^128 (2^64) calls to next()" checked against the transcribed jump polynomial
template <typename W>
struct Lin {
	enum { B = sizeof(W) * 8, N = 4 * B };
	using V = std::array<W, 4>;
	std::vector<V> col;
	Lin() : col(N) {
		for (int j = 0; j < N; ++j) {
			ref::Xoshiro<W> x{{0, 0, 0, 0}};
			x.s[j / B] = W(W(1) << (j % B));
			x.step();
			col[j] = V{{x.s[0], x.s[1], x.s[2], x.s[3]}};
		}
	}
	V apply(const V& v) const {
		V r{{0, 0, 0, 0}};
		for (int j = 0; j < N; ++j)
			if (v[j / B] >> (j % B) & 1) for (int k = 0; k < 4; ++k) r[k] ^= col[j][k];
		return r;
	}
	void square() {
		std::vector<V> n(N);
		for (int j = 0; j < N; ++j) n[j] = apply(col[j]);
		col.swap(n);
	}
};

template <typename W>
static void selfJump(const char* name) {
	using V = typename Lin<W>::V;
	Lin<W> m;
	const V probes[3] = {V{{1, 2, 3, 4}}, V{{W(~W(0)), 0, W(0x5555555555555555ull), W(0x8000000000000001ull)}}, V{{0, 0, 0, 1}}};
	for (int q = 0; q < 3; ++q) m.square();  // T^8
	for (const V& p : probes) {
		ref::Xoshiro<W> x{{p[0], p[1], p[2], p[3]}};
		for (int i = 0; i < 8; ++i) x.step();
		expect(m.apply(p) == V{{x.s[0], x.s[1], x.s[2], x.s[3]}}, std::string(name) + ": matrix power machinery (T^8 != 8 steps)");
	}
	for (int q = 3; q < Lin<W>::N / 2; ++q) m.square();  // T^(2^(N/2))
	for (const V& p : probes) {
		ref::Xoshiro<W> x{{p[0], p[1], p[2], p[3]}};
		x.jump();
		expect(m.apply(p) == V{{x.s[0], x.s[1], x.s[2], x.s[3]}}, std::string(name) + ": transcribed jump() is not 2^(bits/2) steps");
	}
}

template <typename W, size_t K>
static void selfStream(const char* name, const bool ss, const W (&kat)[K]) {
	ref::Xoshiro<W> x{{1, 2, 3, 4}};
	for (size_t i = 0; i < K; ++i) {
		const W v = ss ? x.starstar() : x.plus();
		x.step();
		expect(v == kat[i], std::string(name) + ": known answer " + vt::str(i));
	}
}

static void selfCheck() {
	{  // splitmix64 from 0 (the values every xoshiro seeding test vector starts from)
		ref::SplitMix64 m{0};
		const uint64_t kat[4] = {UINT64_C(0xE220A8397B1DCDAF), UINT64_C(0x6E789E6AA1B965F4), UINT64_C(0x06C45D188009454F), UINT64_C(0xF88BB8A8724C81EC)};
		for (int i = 0; i < 4; ++i) expect(m.next() == kat[i], "splitmix64(0) known answer " + vt::str(i));
	}
	{  // MurmurHash3 fmix32(1) = 0x514E28B7, fmix32(0) = 0
		ref::SplitMix32 m{UINT32_C(1) - UINT32_C(0x9E3779B9)};
		expect(m.next() == UINT32_C(0x514E28B7), "splitmix32 mixer: fmix32(1)");
		ref::SplitMix32 z{UINT32_C(0) - UINT32_C(0x9E3779B9)};
		expect(z.next() == 0, "splitmix32 mixer: fmix32(0)");
	}
	// published test vectors for state {1,2,3,4}
	const uint64_t ss256[10] = {UINT64_C(11520), UINT64_C(0), UINT64_C(1509978240), UINT64_C(1215971899390074240), UINT64_C(1216172134540287360),
								UINT64_C(607988272756665600), UINT64_C(16172922978634559625), UINT64_C(8476171486693032832),
								UINT64_C(10595114339597558777), UINT64_C(2904607092377533576)};
	const uint64_t p256[10] = {UINT64_C(5), UINT64_C(211106232532999), UINT64_C(211106635186183), UINT64_C(9223759065350669058), UINT64_C(9250833439874351877),
							   UINT64_C(13862484359527728515), UINT64_C(2346507365006083650), UINT64_C(1168864526675804870),
							   UINT64_C(34095955243042024), UINT64_C(3466914240207415127)};
	const uint32_t ss128[10] = {11520u, 0u, 5927040u, 70819200u, 2031721883u, 1637235492u, 1287239034u, 3734860849u, 3729100597u, 4258142804u};
	const uint32_t p128[10] = {5u, 12295u, 25178119u, 27286542u, 39879690u, 1140358681u, 3276312097u, 4110231701u, 399823256u, 2144435200u};
	selfStream<uint64_t>("xoshiro256**", true, ss256);
	selfStream<uint64_t>("xoshiro256+", false, p256);
	selfStream<uint32_t>("xoshiro128**", true, ss128);
	selfStream<uint32_t>("xoshiro128+", false, p128);
	selfJump<uint64_t>("xoshiro256");
	selfJump<uint32_t>("xoshiro128");
	// the two readings of "a float in [1,2) with the top bits as mantissa, minus 1" agree
	for (int k = 0; k <= 32; ++k) {
		const uint32_t x = k == 32 ? ~UINT32_C(0) : UINT32_C(1) << k;
		const uint32_t u = UINT32_C(0x3F800000) | x >> 9;
		float f; memcpy(&f, &u, 4);
		expect(bitsOf(f - 1.0f) == bitsOf(ref::uniform32(x)), "uniform32 formula " + vt::str(k));
	}
	for (int k = 0; k <= 64; ++k) {
		const uint64_t x = k == 64 ? ~UINT64_C(0) : UINT64_C(1) << k;
		const uint64_t u = UINT64_C(0x3FF0000000000000) | x >> 12;
		double d; memcpy(&d, &u, 8);
		expect(bitsOf(d - 1.0) == bitsOf(ref::uniform64(x)), "uniform64 formula " + vt::str(k));
	}
}

// ==== samples ===========================================================================================

template <typename W>
static std::string sampleSeed(const W seed) {
	using T = Tr<W>;
	W rs[4];
	const int rejects = seedRef<W>(seed, rs);
	typename T::FloatR f{seed};
	typename T::IntR g{seed};
	std::string s = "{" + seedField(seed) + ",\"zero_outputs_rejected\":" + vt::str(rejects) + ",\"state\":" + hex4(g._state);
	W a[4], b[4];
	for (int i = 0; i < 4; ++i) { a[i] = T::word(f); b[i] = T::word(g); }
	s += std::string(",\"") + T::gen(false) + "\":" + hex4(a) + ",\"" + T::gen(true) + "\":" + hex4(b);
	g.jump();
	s += ",\"state_after_4_outputs_and_jump\":" + hex4(g._state);
	char buf[64];
	snprintf(buf, sizeof buf, ",\"next_float32\":%.9g}", (double) f.float32());
	return s + buf;
}

// ==== main ==============================================================================================

struct Sizes { int a32, a32special, b32, b64, nOut, u32, u64; };

static std::string sectionJson(const char* name, const Acc& a) {
	return std::string("\"") + name + "\":" + hex(a.digest);
}

int main(int argc, char** argv) {
	const std::string mode = argc > 1 ? argv[1] : "quick";
	initSlots();
	g_threads = std::max(1u, std::thread::hardware_concurrency());
	if (const char* e = getenv("VT_THREADS")) g_threads = (unsigned) std::max(1, atoi(e));
	selfCheck();
	if (!g_selfFail.empty()) {
		std::string m;
		for (auto& s : g_selfFail) m += (m.empty() ? "" : "; ") + s;
		printf("{\"type\":\"summary\",\"selfcheck_failed\":%zu,\"selfcheck\":\"%s\",\"evaluations\":0,\"distinct_nontrivial\":0,\"violations\":0,\"samples\":[]}\n",
			   g_selfFail.size(), vt::jesc(m).c_str());
		return 0;
	}

	if (mode == "replay") {
		const std::string kind = argc > 2 ? argv[2] : "";
		const uint64_t v = argc > 3 ? strtoull(argv[3], nullptr, 0) : 0;
		Acc a;
		if (kind == "seed32") checkSeed<uint32_t>((uint32_t) v, 1024, true, a);
		else if (kind == "seed64") checkSeed<uint64_t>(v, 1024, true, a);
		else if (kind == "uniform32") checkU32((uint32_t) v, a);
		else if (kind == "uniform64") checkU64(v, a);
		else { fprintf(stderr, "unknown replay kind\n"); return 2; }
		printf("{\"type\":\"summary\",\"evaluations\":%" PRIu64 ",\"violations\":%ld,\"samples\":[]}\n", a.evals, totalViolations());
		return 0;
	}

	const bool thorough = mode == "thorough";
#ifdef VT_REDUCED
	const char* const range = "reduced";
	const Sizes z = thorough ? Sizes{24, 1, 15, 16, 256, 28, 26} : Sizes{20, 1, 13, 14, 64, 26, 24};
#else
	const char* const range = "full";
	const Sizes z = thorough ? Sizes{32, 0, 20, 22, 256, 32, 32} : Sizes{22, 1, 16, 18, 64, 32, 24};
#endif

	// A32: every seed of the range through sequencer, seeding and the first 4 outputs / float calls of both 32-bit generators
	const uint64_t nA = UINT64_C(1) << z.a32;
	const std::vector<uint32_t> spA = z.a32special ? specials<uint32_t>(nA) : std::vector<uint32_t>{};
	const Acc A32 = parallelFor(nA + spA.size(), [&](Acc& a, const uint64_t i) {
		checkSeed<uint32_t>(i < nA ? (uint32_t) i : spA[i - nA], 4, false, a);
	});
	// B32 / B64: long window with three interleaved jumps
	const uint64_t nB32 = UINT64_C(1) << z.b32, nB64 = UINT64_C(1) << z.b64;
	const std::vector<uint32_t> spB32 = specials<uint32_t>(nB32);
	const std::vector<uint64_t> spB64 = specials<uint64_t>(nB64);
	const Acc B32 = parallelFor(nB32 + spB32.size(), [&](Acc& a, const uint64_t i) {
		checkSeed<uint32_t>(i < nB32 ? (uint32_t) i : spB32[i - nB32], z.nOut, true, a);
	});
	const Acc B64 = parallelFor(nB64 + spB64.size(), [&](Acc& a, const uint64_t i) {
		checkSeed<uint64_t>(i < nB64 ? i : spB64[i - nB64], z.nOut, true, a);
	});
	// uniform(uint32_t): 2^u32 arguments (+ the 2^k, 2^k+-1, ~0 arguments when the range is not complete)
	const std::vector<uint32_t> edges32 = specials<uint32_t>(0);
	const uint64_t nU32 = UINT64_C(1) << z.u32;
	const uint64_t xU32 = z.u32 < 32 ? edges32.size() + 1 : 0;
	const Acc U32 = parallelFor(nU32 + xU32, [&](Acc& a, const uint64_t i) {
		checkU32(i < nU32 ? spread(i, z.u32) : i == nU32 ? 0u : edges32[i - nU32 - 1], a);
	});
	// uniform(uint64_t): 2^u64 high words (likewise), low word 0 and ~0
	const uint64_t nU64 = UINT64_C(1) << z.u64;
	const uint64_t xU64 = z.u64 < 32 ? edges32.size() + 1 : 0;
	const Acc U64 = parallelFor(2 * (nU64 + xU64), [&](Acc& a, const uint64_t j) {
		const uint64_t i = j >> 1;
		const uint32_t hi = i < nU64 ? spread(i, z.u64) : i == nU64 ? 0u : edges32[i - nU64 - 1];
		checkU64((uint64_t) hi << 32 | ((j & 1) ? UINT64_C(0xFFFFFFFF) : 0), a);
	});

	// library-level known answers: array seeding is verbatim, {1,2,3,4} gives the published vectors; default == some seeded, non-zero state
	{
		const uint64_t s64[4] = {1, 2, 3, 4};
		const uint32_t s32[4] = {1, 2, 3, 4};
		IntRandomT<8> a{s64}; FloatRandomT<8> b{s64}; IntRandomT<4> c{s32}; FloatRandomT<4> d{s32};
		const uint64_t a0 = a.uint64(), a1 = a.uint64(), a2 = a.uint64();
		const uint64_t b0 = b.uint64(), b1 = b.uint64();
		const uint32_t c0 = c.uint32(), c1 = c.uint32(), c2 = c.uint32();
		const uint32_t d0 = d.uint32(), d1 = d.uint32();
		if (!(a0 == 11520 && a1 == 0 && a2 == UINT64_C(1509978240)) && note(1, SS_STREAM))
			emit(1, SS_STREAM, "xoshiro256starstar from state {1,2,3,4}: " + hexw(a0) + "," + hexw(a1) + "," + hexw(a2) + " instead of 11520,0,1509978240", "\"case\":\"kat\",\"state\":[1,2,3,4]");
		if (!(b0 == 5 && b1 == UINT64_C(211106232532999)) && note(1, P_STREAM))
			emit(1, P_STREAM, "xoshiro256plus from state {1,2,3,4}: " + hexw(b0) + "," + hexw(b1) + " instead of 5,211106232532999", "\"case\":\"kat\",\"state\":[1,2,3,4]");
		if (!(c0 == 11520 && c1 == 0 && c2 == 5927040u) && note(0, SS_STREAM))
			emit(0, SS_STREAM, "xoshiro128starstar from state {1,2,3,4}: " + hexw(c0) + "," + hexw(c1) + "," + hexw(c2) + " instead of 11520,0,5927040", "\"case\":\"kat\",\"state\":[1,2,3,4]");
		if (!(d0 == 5 && d1 == 12295u) && note(0, P_STREAM))
			emit(0, P_STREAM, "xoshiro128plus from state {1,2,3,4}: " + hexw(d0) + "," + hexw(d1) + " instead of 5,12295", "\"case\":\"kat\",\"state\":[1,2,3,4]");
		IntRandomT<8> e; FloatRandomT<8> f; IntRandomT<4> g; FloatRandomT<4> h;
		if ((e._state[0] | e._state[1] | e._state[2] | e._state[3]) == 0 || (f._state[0] | f._state[1] | f._state[2] | f._state[3]) == 0) {
			if (note(1, SEED_ALLZERO)) emit(1, SEED_ALLZERO, "default-constructed 64-bit generator has an all-zero state", "\"case\":\"default\"");
		}
		if ((g._state[0] | g._state[1] | g._state[2] | g._state[3]) == 0 || (h._state[0] | h._state[1] | h._state[2] | h._state[3]) == 0) {
			if (note(0, SEED_ALLZERO)) emit(0, SEED_ALLZERO, "default-constructed 32-bit generator has an all-zero state", "\"case\":\"default\"");
		}
	}
	if (vt::breaks().count) {
		std::lock_guard<std::mutex> l(g_mx);
		vt::rep().violation("assert/random", std::string("library assertion ") + vt::breaks().file + ":" + vt::str(vt::breaks().line), "{\"harness\":\"c20_random\",\"case\":\"assert\"}");
	}

	// ---- summary
	Acc all;
	all.merge(A32); all.merge(B32); all.merge(B64); all.merge(U32); all.merge(U64);
	uint64_t digest = FNV_OFF;
	for (const Acc* a : {&A32, &B32, &B64, &U32, &U64}) digest = fnv(digest, a->digest);
	const uint64_t wide = fnv(fnv(FNV_OFF, A32.wide), B32.wide);
	const char* order = all.order[3] ? "other" : (all.order[0] && all.order[1]) ? "mixed" : all.order[0] ? "first-draw-high" : all.order[1] ? "first-draw-low" : "undecided";
	uint64_t wideSample;
	{ const uint32_t s32[4] = {1, 2, 3, 4}; IntRandomT<4> c{s32}; wideSample = c.uint64(); }

	std::vector<std::string> samples;
	samples.push_back(sampleSeed<uint32_t>(UINT32_C(0) - UINT32_C(0x9E3779B9)));  // first sequencer output is 0 -> rejected
	samples.push_back(sampleSeed<uint32_t>(42));
	samples.push_back(sampleSeed<uint64_t>(0));
	samples.push_back(sampleSeed<uint64_t>(UINT64_C(0) - 2 * UINT64_C(0x9E3779B97F4A7C15)));  // second sequencer output is 0 -> rejected
	{
		char b[256];
		snprintf(b, sizeof b, "{\"case\":\"uniform32\",\"arg\":\"0xffffffff\",\"result\":%.9g,\"arg2\":\"0x00000200\",\"result2\":%.9g}",
				 (double) hfsm2::detail::uniform(~UINT32_C(0)), (double) hfsm2::detail::uniform(UINT32_C(0x200)));
		samples.push_back(b);
		snprintf(b, sizeof b, "{\"case\":\"uniform64\",\"arg\":\"0xffffffffffffffff\",\"result\":%.17g,\"arg2\":\"0x0000000000001000\",\"result2\":%.17g}",
				 hfsm2::detail::uniform(~UINT64_C(0)), hfsm2::detail::uniform(UINT64_C(0x1000)));
		samples.push_back(b);
	}
	std::string sj = "[";
	for (size_t i = 0; i < samples.size(); ++i) sj += (i ? "," : "") + samples[i];
	sj += "]";

	uint64_t rej32 = 0, rej64 = 0, bnd32 = 0, bnd64 = 0;
	for (auto& r : all.rejects) (r.first == 32 ? rej32 : rej64)++;
	for (auto& r : all.bounds) (r.first == 32 ? bnd32 : bnd64)++;

	printf("{\"type\":\"summary\",\"range\":\"%s\",\"threads\":%u,\"selfcheck_failed\":0,"
		   "\"evaluations\":%" PRIu64 ",\"distinct_nontrivial\":%" PRIu64 ","
		   "\"seeds32\":%" PRIu64 ",\"seeds32_long\":%" PRIu64 ",\"seeds64\":%" PRIu64 ",\"outputs_per_long_seed\":%d,"
		   "\"outputs_compared\":%" PRIu64 ",\"jumps_compared\":%" PRIu64 ",\"floats_checked\":%" PRIu64 ","
		   "\"uniform32_args\":%" PRIu64 ",\"uniform64_args\":%" PRIu64 ","
		   "\"reject_seeds32\":%" PRIu64 ",\"reject_seeds64\":%" PRIu64 ",\"uniform32_edges\":%" PRIu64 ",\"uniform64_edges\":%" PRIu64 ","
		   "\"violations\":%ld,\"digest\":%s,\"digest_sections\":{%s,%s,%s,%s,%s},"
		   "\"digest_wide32\":%s,\"wide32_order\":\"%s\",\"wide32_counts\":[%" PRIu64 ",%" PRIu64 ",%" PRIu64 ",%" PRIu64 "],\"wide32_sample\":%s,"
		   "\"samples\":%s}\n",
		   range, g_threads,
		   all.evals, (uint64_t) (all.rejects.size() + all.bounds.size()),
		   A32.seeds, B32.seeds, B64.seeds, z.nOut,
		   all.outputs, all.jumps, all.floats,
		   U32.uargs, U64.uargs,
		   rej32, rej64, bnd32, bnd64,
		   totalViolations() + (vt::breaks().count ? 1 : 0), hex(digest).c_str(),
		   sectionJson("a32", A32).c_str(), sectionJson("b32", B32).c_str(), sectionJson("b64", B64).c_str(),
		   sectionJson("u32", U32).c_str(), sectionJson("u64", U64).c_str(),
		   hex(wide).c_str(), order, all.order[0], all.order[1], all.order[2], all.order[3], hex(wideSample).c_str(),
		   sj.c_str());
	return 0;
}
