"""Shared plumbing for the HFSM2 verification checks (see DESIGN.md section 2).

* content-addressed build cache keyed by the *current working tree* of the repository
* parallel build / run helpers
* violation -> replay file -> VIOLATION / KNOWN-FINDING lines
* evidence writer (schema /root/.vp/EVIDENCE.schema.json)
"""
import concurrent.futures as cf
import hashlib
import json
import os
import shutil
import subprocess
import sys
import time

VERIF = os.path.dirname(os.path.abspath(__file__))
REPO = os.environ.get("VERIF_REPO", "/repo")
BUILD = os.path.join(VERIF, "build")
# runs against a scratch copy (VERIF_REPO set) must never clobber the committed evidence of /repo
_SCRATCH = os.path.realpath(REPO) != "/repo"
EVID = os.path.join(VERIF, "evidence_scratch" if _SCRATCH else "evidence")
REPLAYS = os.path.join(VERIF, "replays_scratch" if _SCRATCH else "replays")
NCPU = int(os.environ.get("VERIF_JOBS", os.cpu_count() or 4))
SEED = int(os.environ.get("VERIF_SEED", "0") or 0)

GUARD = "HFSM2_VERIF"


def log(*a):
    print(*a, file=sys.stderr, flush=True)


# --------------------------------------------------------------------------------------------------
# tree hash / build cache

_tree_hash = None


def tree_hash():
    """SHA-256 over every file the library is made of, in the working tree as it is *now*."""
    global _tree_hash
    if _tree_hash is not None:
        return _tree_hash
    h = hashlib.sha256()
    roots = [os.path.join(REPO, "include"), os.path.join(REPO, "development")]
    files = []
    for r in roots:
        for d, _, fs in os.walk(r):
            for f in fs:
                files.append(os.path.join(d, f))
    files.append(os.path.join(REPO, "tools", "join.py"))
    for f in sorted(files):
        h.update(os.path.relpath(f, REPO).encode())
        try:
            with open(f, "rb") as fh:
                h.update(hashlib.sha256(fh.read()).digest())
        except OSError:
            h.update(b"<missing>")
    _tree_hash = h.hexdigest()
    return _tree_hash


def _file_hash(path):
    with open(path, "rb") as fh:
        return hashlib.sha256(fh.read()).hexdigest()


def engine_hash(subs=("engine", "harness")):
    h = hashlib.sha256()
    for sub in subs:
        root = os.path.join(VERIF, sub)
        for d, _, fs in sorted(os.walk(root)):
            for f in sorted(fs):
                if f.endswith((".hpp", ".h", ".inl")) or (sub == "engine" and f.endswith(".cpp")):
                    h.update(f.encode())
                    h.update(_file_hash(os.path.join(d, f)).encode())
    return h.hexdigest()


_dep_hash = {}


def dep_hash(src_text):
    """hash of the framework headers a translation unit can include (engine/ and/or harness/ headers)"""
    subs = tuple(sub for sub in ("engine", "harness") if ('"%s/' % sub) in src_text)
    if subs not in _dep_hash:
        _dep_hash[subs] = engine_hash(subs)
    return _dep_hash[subs]


_engine_hash = None

FLAVOURS = {
    "single": ["-I" + os.path.join(REPO, "include")],
    "dev": ["-I" + os.path.join(REPO, "development"), "-DVT_DEV_HEADER"],
}

BASE_FLAGS = ["-fno-access-control", "-w", "-D" + GUARD, "-I" + VERIF]

SAN_FLAGS = ["-fsanitize=address,undefined", "-fno-sanitize-recover=undefined",
             "-fno-omit-frame-pointer", "-g1"]
# engine builds: reports are counted through __asan_on_error / __ubsan_on_report and the run continues
SAN_RECOVER_FLAGS = ["-fsanitize=address,undefined", "-fsanitize-recover=address,undefined", "-fno-omit-frame-pointer", "-g1"]


class BuildError(Exception):
    pass


def build(src_text, name, cxx="g++", std="c++17", opt="-O1", flags=(), flavour="single",
          san=False, allow_fail=False):
    """Compile src_text (a complete TU) into a cached binary; returns its path (None if allow_fail and
    the compiler rejected it; the first error lines are then in build.last_error)."""
    allflags = ["-std=" + std, opt] + BASE_FLAGS + FLAVOURS[flavour] + list(flags)
    if san == "recover":
        allflags += SAN_RECOVER_FLAGS
    elif san:
        allflags += SAN_FLAGS
    key = hashlib.sha256("\0".join([tree_hash(), dep_hash(src_text), src_text, cxx] + allflags).encode()).hexdigest()[:20]
    d = os.path.join(BUILD, key)
    exe = os.path.join(d, name)
    failmark = os.path.join(d, "FAILED")
    if os.path.exists(exe):
        return exe
    if os.path.exists(failmark):
        if allow_fail:
            return None
        raise BuildError(open(failmark).read())
    os.makedirs(d, exist_ok=True)
    src = os.path.join(d, name + ".cpp")
    with open(src, "w") as fh:
        fh.write(src_text)
    import threading
    tmp = "%s.tmp.%d.%d" % (exe, os.getpid(), threading.get_ident())
    cmd = [cxx] + allflags + [src, "-o", tmp]
    p = subprocess.run(cmd, capture_output=True, text=True)
    if p.returncode != 0:
        err = "\n".join(l for l in p.stderr.splitlines() if "error" in l)[:2000] or p.stderr[:2000]
        with open(failmark, "w") as fh:
            fh.write(" ".join(cmd) + "\n" + err)
        if allow_fail:
            return None
        raise BuildError(" ".join(cmd) + "\n" + p.stderr[:4000])
    os.replace(tmp, exe)
    with open(os.path.join(d, "TREE"), "w") as fh:
        fh.write(tree_hash())
    return exe


def build_many(specs, jobs=None):
    """specs: list of dict(kwargs for build). Returns list of exe paths (None when allow_fail)."""
    jobs = jobs or NCPU
    with cf.ThreadPoolExecutor(max_workers=jobs) as ex:
        futs = [ex.submit(build, **s) for s in specs]
        return [f.result() for f in futs]


def prune_cache(keep_recent_trees=2, max_gb=20):
    """Drop cached binaries of other trees when the cache grows (disk is limited)."""
    if not os.path.isdir(BUILD):
        return
    total = 0
    entries = []
    for k in os.listdir(BUILD):
        d = os.path.join(BUILD, k)
        if not os.path.isdir(d):
            continue
        size = sum(os.path.getsize(os.path.join(d, f)) for f in os.listdir(d) if os.path.isfile(os.path.join(d, f)))
        try:
            tree = open(os.path.join(d, "TREE")).read()
        except OSError:
            tree = ""
        entries.append((os.path.getmtime(d), d, size, tree))
        total += size
    if total < max_gb * (1 << 30):
        return
    cur = tree_hash()
    for _, d, size, tree in sorted(entries):
        if tree != cur:
            shutil.rmtree(d, ignore_errors=True)
            total -= size
        if total < max_gb * (1 << 30) / 2:
            break


# --------------------------------------------------------------------------------------------------
# running binaries

def run_json(cmd, timeout=None, env=None, stdin=None):
    """Run a harness binary that prints one JSON object per line on stdout. Returns (records, rc, stderr)."""
    e = dict(os.environ)
    e.setdefault("ASAN_OPTIONS", "detect_leaks=0:abort_on_error=0:halt_on_error=0:exitcode=0")
    e.setdefault("UBSAN_OPTIONS", "print_stacktrace=1:exitcode=0")
    if env:
        e.update(env)
    try:
        p = subprocess.run(cmd, capture_output=True, text=True, timeout=timeout, env=e, input=stdin)
    except subprocess.TimeoutExpired as ex:
        return [], -999, "TIMEOUT after %ss: %s" % (timeout, " ".join(cmd))
    recs = []
    for line in p.stdout.splitlines():
        line = line.strip()
        if line.startswith("{"):
            try:
                recs.append(json.loads(line))
            except ValueError:
                recs.append({"type": "garbage", "line": line[:500]})
    return recs, p.returncode, p.stderr


def run_many(cmds, jobs=None, timeout=None, env=None):
    jobs = jobs or NCPU
    with cf.ThreadPoolExecutor(max_workers=jobs) as ex:
        futs = [ex.submit(run_json, c, timeout, env) for c in cmds]
        return [f.result() for f in futs]


# --------------------------------------------------------------------------------------------------
# known findings

def load_known(prop):
    """known_findings.txt lines:  finding: property=C13 key=<fingerprint-prefix> <text>"""
    out = []
    path = os.path.join(VERIF, "known_findings.txt")
    if not os.path.exists(path):
        return out
    for line in open(path):
        line = line.strip()
        if not line.startswith("finding:"):
            continue
        parts = line.split(None, 3)
        if len(parts) < 3:
            continue
        kv = dict(p.split("=", 1) for p in parts[1:3] if "=" in p)
        if kv.get("property") == prop and "key" in kv:
            out.append((kv["key"], parts[3] if len(parts) > 3 else kv["key"]))
    return out


def match_known(known, fingerprint):
    for key, text in known:
        if fingerprint == key or fingerprint.startswith(key + "/"):
            return key, text
    return None


# --------------------------------------------------------------------------------------------------
# check result = evidence + violations

class Check:
    def __init__(self, prop, tier, level):
        self.prop = prop
        self.tier = tier
        self.level = level
        self.t0 = time.time()
        self.coverage = {}
        self.assumptions = []
        self.violations = []   # dict(fingerprint, message, replay)
        self.engine_errors = []
        self.deadline = None

    def set_deadline(self, seconds):
        self.deadline = self.t0 + seconds

    def time_left(self):
        return 1e9 if self.deadline is None else self.deadline - time.time()

    def violation(self, fingerprint, message, replay):
        self.violations.append({"fingerprint": fingerprint, "message": message, "replay": replay})

    def engine_error(self, msg):
        self.engine_errors.append(msg)

    def finish(self):
        """Write evidence, print VIOLATION / KNOWN-FINDING lines, return the exit code."""
        os.makedirs(EVID, exist_ok=True)
        os.makedirs(REPLAYS, exist_ok=True)
        known = load_known(self.prop)
        new = {}
        knownhit = {}
        for v in self.violations:
            m = match_known(known, v["fingerprint"])
            if m:
                knownhit.setdefault(m[0], [m[1], 0, v])
                knownhit[m[0]][1] += 1
            else:
                new.setdefault(v["fingerprint"], []).append(v)
        rc = 0
        for key, (text, n, v) in sorted(knownhit.items()):
            print("KNOWN-FINDING: property=%s %s [key=%s, %d occurrence(s) this run]" % (self.prop, text, key, n))
        for fp, vs in sorted(new.items()):
            v = vs[0]
            rid = hashlib.sha256(fp.encode()).hexdigest()[:10]
            path = os.path.join(REPLAYS, "%s-%s.json" % (self.prop, rid))
            with open(path, "w") as fh:
                json.dump({"property": self.prop, "fingerprint": fp, "message": v["message"],
                           "occurrences": len(vs), "replay": v["replay"], "tree": tree_hash(),
                           "repo": REPO}, fh, indent=1)
            print("VIOLATION property=%s replay=%s" % (self.prop, path))
            log("  %s: %s" % (fp, v["message"]))
            rc = 1
        for e in self.engine_errors:
            log("ENGINE ERROR: " + e)
        cov = dict(self.coverage)
        cov.setdefault("known_finding_hits", {k: v[1] for k, v in knownhit.items()})
        cov.setdefault("new_violation_fingerprints", sorted(new.keys()))
        ev = {
            "property_id": self.prop,
            "tier": self.tier,
            "seed": SEED,
            "level": self.level,
            "coverage": cov,
            "assumptions": self.assumptions,
            "wall_s": round(time.time() - self.t0, 2),
            "violations": len(new),
            "tree": tree_hash(),
        }
        with open(os.path.join(EVID, self.prop + ".json"), "w") as fh:
            json.dump(ev, fh, indent=1)
        if self.engine_errors and rc == 0:
            # an engine error is never reported as a VIOLATION; it makes the run fail loudly instead (exit 2). When the run
            # also found violations, those decide the exit code (1) and the engine errors stay on stderr as notes.
            return 2
        log("%s %s: %s in %.1fs" % (self.prop, self.tier, "VIOLATION" if rc else "ok", time.time() - self.t0))
        return rc
