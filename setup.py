#!/usr/bin/env python3
"""MANIFEST.setup_cmd: nothing to fetch; creates the working directories and checks the tool chain."""
import os, subprocess, sys
here = os.path.dirname(os.path.abspath(__file__))
for d in ("build", "evidence", "replays"):
    os.makedirs(os.path.join(here, d), exist_ok=True)
for tool in ("g++", "clang++", "python3"):
    subprocess.run([tool, "--version"], stdout=subprocess.DEVNULL, check=True)
print("setup ok")
