#!/usr/bin/env python3
"""Single entry point:  python3 vt.py <Cxx> --tier quick|thorough   |   python3 vt.py <Cxx> --replay <file>
Exit 0: property held on everything explored (KNOWN-FINDING lines possible); exit 1: VIOLATION line(s) printed.
"""
import argparse
import importlib
import os
import sys

sys.path.insert(0, os.path.dirname(os.path.abspath(__file__)))
import vtlib  # noqa: E402


def main():
    ap = argparse.ArgumentParser()
    ap.add_argument("prop")
    ap.add_argument("--tier", default=os.environ.get("VERIF_TIER", "quick"), choices=["quick", "thorough"])
    ap.add_argument("--replay")
    a = ap.parse_args()
    prop = a.prop.upper()
    mod = importlib.import_module("checks." + prop.lower())
    if a.replay:
        return mod.replay(a.replay)
    vtlib.prune_cache()
    chk = mod.run(a.tier)
    return chk.finish()


if __name__ == "__main__":
    sys.exit(main())
