"""C18 - bit arrays, sub-range views and bit streams are exact for every index, width, value and alignment.

The harness (harness/c18_bits.cpp) is compiled once per compiler/sanitizer variant and per VT_PART (the work is split
over five binaries only to keep compile time down; they are built and run in parallel):
  part 1: BitArrayT<N> + views, N = 1..13     part 2: N = 14..17, 24     part 3: N = 31, 32, 33     part 4: N = 64
  part 5: StreamBufferT / BitWriteStreamT / BitReadStreamT
"""
import json
import vtlib
from checks import component
from checks.component import run_component

HARNESS = "c18_bits.cpp"
PARTS = (1, 2, 3, 4, 5)

# CBits::get<I>() contains static_assert(INDEX < _width) on a non-static member: if it cannot be instantiated the
# static-index form of CBits is left out of the harness (reported in the evidence, not as a violation: nothing behaves
# wrongly, the member simply cannot be used). When the library makes it compile, the harness tests it.
PROBE = r'''
#ifdef VT_DEV_HEADER
#include <hfsm2/machine_dev.hpp>
#else
#include <hfsm2/machine.hpp>
#endif
#include "harness/common.hpp"
int main() {
	hfsm2::detail::BitArrayT<16> a;
	a.set(1);
	const hfsm2::detail::BitArrayT<16>& c = a;
	return c.cbits<0, 9>().get<1>() ? 0 : 1;
}
'''

RULE = (
    "Enumeration, no sampling. Arrays: explicit-state exploration of the concrete BitArrayT<N> (storage incl. padding) from a new "
    "array with every operation and form (set/clear/get with Index, int, Long and static index, set(), clear(), empty(), and "
    "!=, &, &= for ordered pairs of explored states); all reachable states for N<=10 (thorough N<=13), for larger N the states "
    "with <=2 or >=N-1 members and prefix/suffix intervals. Views: every (unit,width) with 8*unit+width<=N in 4 forms on 3 "
    "placements of the parent (guard page after / before, exact malloc block). Streams: every alignment 0..7 x width 1..32 x value "
    "set (all values up to width 12 quick / 16 thorough, else 0, ones, single bits, 0x55.., 0xAA..) in 3 modes, all ordered width "
    "pairs with walking-one values, thorough: triples over {1,3,7,8,9,16,17,32}. "
    "A case counts as non-trivial (distinct cases, hashed and de-duplicated by the harness; identical cases re-run by other "
    "compiler variants are NOT counted again) when: array op (N, state, op, index) with N%8!=0 that touches/observes the partially "
    "used last unit, or a whole-array op on such an array; array pair (N, a, b) with N%8!=0 whose sets are equal or differ in exactly "
    "one index; view call (N, unit, width, form, op, index) whose width is a multiple of 8, or ends at the last byte of the object, "
    "or spans more than one unit; stream case (mode, start, fields) in which at least one field straddles a byte boundary; buffer "
    "capacity that is not a multiple of 8."
)


def _probe():
    """per flavour: can CBits::get<I>() be instantiated?"""
    specs = [dict(src_text=PROBE, name="c18_probe", cxx="g++", std="c++14", flavour=fl, allow_fail=True) for fl in ("single", "dev")]
    exes = vtlib.build_many(specs)
    return {"single": exes[0] is not None, "dev": exes[1] is not None}


def _variants(tier, probe):
    base = component.VARIANTS_THOROUGH if tier == "thorough" else component.VARIANTS_QUICK
    out = []
    for name, kw in base:
        for part in PARTS:
            k = dict(kw)
            k["flags"] = list(kw.get("flags", [])) + ["-DVT_PART=%d" % part]
            if probe[kw.get("flavour", "single")]:
                k["flags"].append("-DVT_CBITS_STATIC_GET")
            out.append(("%s/part%d" % (name, part), k))
    return out


def run(tier):
    chk = vtlib.Check("C18", tier, "exploration")
    probe = _probe()
    variants = _variants(tier, probe)
    totals, _, per_variant, extra = run_component(chk, HARNESS, tier, variants=variants, sum_keys=("evaluations",))

    # distinct non-trivial cases: the parts are disjoint (sum), the compiler variants repeat the same cases (max)
    per_compiler = {}
    samples = []
    fired = {}
    for vname, pv in per_variant.items():
        comp = vname.split("/part")[0]
        per_compiler[comp] = per_compiler.get(comp, 0) + int(pv.get("distinct_nontrivial", 0))
        for s in pv.pop("case_samples", []):
            if s not in samples:
                samples.append(s)
        for fp, n in pv.pop("violation_counts", {}).items():
            fired[fp] = fired.get(fp, 0) + n
    complete = len(per_variant) == len(variants)
    chk.coverage = {
        "evaluations": totals["evaluations"],
        "distinct_nontrivial": max(per_compiler.values()) if per_compiler else 0,
        "rule": RULE,
        "samples": samples[:12],
        "exhaustive": bool(complete),
        "distinct_nontrivial_per_compiler_variant": per_compiler,
        "array_states": extra.get("array_states", 0),
        "array_unary_evals": extra.get("array_unary_evals", 0),
        "array_pair_evals": extra.get("array_pair_evals", 0),
        "view_cases": extra.get("view_cases", 0),
        "view_evals": extra.get("view_evals", 0),
        "stream_roundtrips": extra.get("stream_roundtrips", 0),
        "buffer_evals": extra.get("buffer_evals", 0),
        "guard_page_faults_caught": extra.get("guard_page_faults_caught", 0),
        "stream_layout_differs_from_lsb_first": extra.get("stream_layout_differs_from_lsb_first", 0),
        "violation_occurrences_by_fingerprint": fired,
        "cbits_static_get_instantiable": probe,
        "per_variant": per_variant,
        "explanation": "exhaustive = the enumeration described in 'rule' was completed by every binary (all parts of all compiler "
                       "variants printed their summary); it is exhaustive over that finite space, not over all capacities. "
                       "evaluations and the array_/view_/stream_/buffer_ counters are summed over all binaries (every compiler variant "
                       "re-runs the same cases); distinct_nontrivial counts each case once.",
    }
    chk.assumptions = [
        "capacities N in {1..17, 24, 31, 32, 33, 64}; stream capacities up to 112 bits; N > 64 (16-bit Index) is not covered",
        "preconditions visible as HFSM2_ASSERT are respected: index < capacity / < view width, unit + contain(width, 8) <= UNIT_COUNT, "
        "written values fit their width, total bits <= BIT_CAPACITY; the assert-enabled variants report any assertion that fires anyway",
        "a view 'fits' when 8*unit + width <= N (its indices are indices of the parent); width 0 and views that reach into padding bits are not tested",
        "operator& (bool) is read as 'the intersection is non-empty' (the only set-level reading of a boolean 'and'); both directions have their own "
        "fingerprint (bitarray/and-disjoint, bitarray/and-intersects)",
        "padding bits of the last unit and the bit layout inside a stream buffer are never compared; buffer bits outside the written fields are "
        "compared with the buffer contents right after the writer was constructed",
        "array objects are restored from the explored storage bytes (BitArrayT is a plain byte array) instead of replaying the operation history",
        "static forms: bits<U,W>()/cbits<U,W>() for every fitting (U,W) up to N=33 and around unit boundaries for N=64; static index <I> on static views "
        "for every I when N<=17, for widths <=2, multiples of 8 and views ending at N otherwise",
        "CBits::get<I>() is %s" % ("tested" if all(probe.values()) else "NOT tested: it cannot be instantiated (static_assert on the non-static member _width)"),
    ]
    if not all(probe.values()):
        vtlib.log("C18 note: CBits::get<I>() cannot be instantiated (%s); static-index form of CBits left out" % json.dumps(probe))
    return chk


def replay(path):
    """Re-run the tier that is cheapest to reproduce the recorded fingerprint and say whether it still fires."""
    rec = json.load(open(path))
    fp = rec["fingerprint"]
    chk = run("quick")
    hit = [v for v in chk.violations if v["fingerprint"] == fp]
    if not hit:
        chk = run("thorough")
        hit = [v for v in chk.violations if v["fingerprint"] == fp]
    if hit:
        print("VIOLATION property=C18 replay=%s" % path)
        vtlib.log("  %s: %s" % (fp, hit[0]["message"]))
        vtlib.log("  case: %s" % json.dumps(hit[0]["replay"]))
        return 1
    vtlib.log("C18 replay: fingerprint %s does not fire any more" % fp)
    return 0
