import vtlib
from checks import engine as en


def run(tier):
    chk = vtlib.Check("C01", tier, "model_checking")
    thorough = tier == "thorough"
    progs = en.curated() + en.curated(names=["mixed14", "headless", "stratutil"], manual=True)
    classes = en.cls("REQ", "GUARD", "SELECT", "RNG", "UTIL", "RANK")
    args = ["--tier", tier, "--dev", "2" if thorough else "1", "--batch", "3" if thorough else "2",
            "--classes", str(classes), "--deadline", str(en.TD if thorough else 150), "--dev-immediate", "1" if thorough else "0"]
    if thorough:
        fam = en.systematic(4) + en.spines()
        for p in fam:
            p.args = ["--dev", "1", "--batch", "2"]
        progs += fam
        chk.coverage["systematic_family"] = {"programs": len(fam), "rule": "all ordered trees with <= 4 states: every region kind headed, composite/resumable/orthogonal also headless; plus the spine family (all kind chains of depth 3 in two orientations, depth 4 over C/O/R)"}
    if not thorough:
        for p in progs:
            if p.name in ("mixed14", "ortho89", "nestutil"):
                p.args = ["--batch", "1"]  # the big programs: all single requests + deviations; pairs are covered on the smaller ones
    if not thorough:
        # the small utility/random program once more with two deviations restricted to the environment's answers
        # (a utility answer that makes the nested Random region win AND a generator output that picks a late sub-state)
        d2 = en.curated(names=["utilrand"])
        for p in d2:
            p.args = ["--dev", "2", "--batch", "1", "--classes", str(en.cls("UTIL", "RNG", "RANK"))]
            p.label += "/answers-dev2"
        progs += d2
    res = en.run_all(chk, "C01", progs, args, timeout=(en.TD + 900 if thorough else 400))
    en.aggregate(chk, res, "C01")
    chk.coverage["explanation"] = (
        "BFS to a fixpoint over all reachable quiescent states of each generated program (real library instance, fresh "
        "instance + history replay per edge); from every state the complete base alphabet (all request kinds x all state "
        "ids, update, react, query, reset, manual enter/exit), all ordered request batches up to the batch bound and "
        "every choice vector with <= dev non-default callback decisions (requests from callbacks, guard cancel / "
        "substitute, select(), rank(), utility() answers, generator outputs incl. 1-2^-24). The well-formedness invariant "
        "is evaluated through the public queries at every quiescent state and through Control inside every update / "
        "react / query / guard callback.")
    chk.assumptions = [
        "documented preconditions respected: select() below the width, utilities positive, generator outputs in [0,1), no cancel during the first activation; programs with headless composite-style regions do not use select/randomize (their anonymous head cannot answer select())",
        "deviation bound and batch bound as reported per program; states are canonical keys (active + resumable prongs, plans, pending marks)",
        "trusted: g++, the -fno-access-control probe used for the state key, the independent structure descriptor (cross-checked against the library's registry before exploring)",
    ]
    return chk


def replay(path):
    return en.replay(path)
