import vtlib
from checks import engine as en


def run(tier):
    chk = vtlib.Check("C08", tier, "model_checking")
    thorough = tier == "thorough"
    progs = [p for p in en.curated() if en.st.serializable(p.root)]
    progs += [p for p in en.curated(manual=True) if en.st.serializable(p.root)]
    progs += en.curated(names=["mixed14", "headless", "ortho89"], cxx="clang++", std="c++14", san=True, asserts=True)
    args = ["--tier", tier, "--dev", "0", "--batch", "1", "--deadline", str(1500 if thorough else 150)]
    res = en.run_all(chk, "C08", progs, args, timeout=(2400 if thorough else 400))
    en.aggregate(chk, res, "C08")
    chk.coverage["explanation"] = (
        "The reachable quiescent states of each serializable program are closed by BFS (incl. 'never entered' and "
        "'exited' under manual activation); then for EVERY ordered pair (source, destination) of them (capped at 500 "
        "(thorough 2500) states per program, cap reported per program) a fresh source instance saves into an exactly "
        "sized heap buffer, a fresh destination instance loads it: save() must not change the source or call back, the "
        "loaded active and resumable configuration must equal the saved one, exit()/enter() must be delivered for every "
        "state that stops/starts being active, the loading instance's lifecycle must stay balanced to destruction, "
        "re-saving must give a bit-identical buffer, and BIT_CAPACITY must equal the value computed from the structure. "
        "'transitions' counts the (source, destination) load edges; sanitizer builds catch out-of-buffer accesses.")
    chk.assumptions = ["width-1 composite regions do not compile with serialization and are excluded (compile-time limit of the library)",
                       "plans, history and pending marks are not part of the serialized state and are not compared"]
    return chk


def replay(path):
    return en.replay(path)
