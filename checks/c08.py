import vtlib
from checks import engine as en


BIG_SHAPES = {
    # dsl -> why: serialization budgets beyond 255 bits (the counts are Long; REGION_COUNT <= 255 is the identifier limit)
    "quick": ["O(%s)" % ",".join(["C(l,l,l)"] * 52)],
    "thorough": ["O(%s)" % ",".join(["C(l,l,l)"] * 52), "C(%s)" % ",".join(["C(l,l,l)"] * 86),
                 "C(%s)" % ",".join(["R(l,O(C(l,l),C(l,l)),l)"] * 30)],
}


def big_source(dsl):
    """a machine whose serialization budget exceeds 255 bits: for every ordered pair of configurations out of
    {initial, one region moved to each of its leaves (every leaf of the machine), every region on its last leaf,
    every region on its middle leaf} x {initial, all-last, all-middle, not activated}: save from a fresh instance brought
    there, load into a fresh instance brought to the destination; buffers live in exactly sized heap blocks between
    canaries (and under the address sanitizer in the sanitizer variant)."""
    st = en.st
    root = st.parse(dsl)
    ns = st.nodes(root)
    cnt = st.counts(root)
    named = [n for n in ns if not (n.is_region and n.headless)]
    leaves = [n for n in ns if not n.is_region and n.parent is not None]
    out = ["#define HFSM2_ENABLE_SERIALIZATION", "#include <hfsm2/machine.hpp>", "#include <cstdio>", "#include <cstring>",
           "#include <cstdlib>", "#include <vector>", "#include <string>",
           "using M = hfsm2::MachineT<hfsm2::Config::ManualActivation>;"]
    out += ["struct S%d;" % n.id for n in named]
    out.append("using FSM = %s;" % st.type_expr(root, True))
    out += ["struct S%d : FSM::State {};" % n.id for n in named]
    last = [n.children[-1] for n in ns if n.is_compo and not n.children[-1].is_region]
    mid = [n.children[len(n.children) // 2] for n in ns if n.is_compo and not n.children[len(n.children) // 2].is_region]
    out.append("static const int LEAVES[] = {%s};" % ",".join(str(n.id) for n in leaves))
    out.append("static const int LAST[] = {%s};" % ",".join(str(n.id) for n in last))
    out.append("static const int MID[] = {%s};" % ",".join(str(n.id) for n in mid))
    out.append("static const int EXPECT_BITS = %d, STATES = %d;" % (cnt["serial_bits"], cnt["states"]))
    out.append('static const char* DSL = "%s";' % (dsl if len(dsl) < 120 else dsl[:117] + "..."))
    out.append(r"""
using Buf = FSM::Instance::SerialBuffer;
extern "C" void hfsm2_verif_break(const char* f, int l) noexcept { fprintf(stderr, "library assertion %s:%d\n", f, l); abort(); }
struct Boxed {            // the buffer in an exactly sized heap block, canaries on both sides
	unsigned char* raw; Buf* buf;
	Boxed() { raw = (unsigned char*) malloc(sizeof(Buf) + 32); memset(raw, 0xA5, sizeof(Buf) + 32); buf = new (raw + 16) Buf(); }
	~Boxed() { buf->~Buf(); free(raw); }
	bool intact() const { for (int i = 0; i < 16; ++i) if (raw[i] != 0xA5 || raw[16 + sizeof(Buf) + i] != 0xA5) return false; return true; }
};
// configuration index: 0 initial, 1 all-last, 2 all-middle, 3 not activated, 4+k: leaf k requested from the initial configuration
static void bring(FSM::Instance& f, int c) {
	if (c == 3) return;
	f.enter();
	if (c == 1) { for (int s : LAST) f.changeTo((hfsm2::StateID) s); f.update(); }
	else if (c == 2) { for (int s : MID) f.changeTo((hfsm2::StateID) s); f.update(); }
	else if (c >= 4) { f.immediateChangeTo((hfsm2::StateID) LEAVES[c - 4]); }
}
static std::string config(const FSM::Instance& f) {
	std::string s;
	for (int i = 0; i < STATES; ++i) s += f.isActive((hfsm2::StateID) i) ? 'A' : (f.isResumable((hfsm2::StateID) i) ? 'r' : '.');
	return s;
}
int main() {
	long pairs = 0, bad = 0; int distinct = 0;
	const int NL = sizeof(LEAVES) / sizeof(LEAVES[0]);
	auto fail = [&](const char* fp, int a, int b, const std::string& msg) {
		if (bad++ < 5) printf("{\"type\":\"violation\",\"property\":\"C08\",\"fingerprint\":\"big/%s\",\"message\":\"[%s] source config %d, destination config %d: %s\",\"replay\":{\"harness\":\"c08_big\",\"dsl\":\"%s\",\"src\":%d,\"dst\":%d}}\n", fp, DSL, a, b, msg.c_str(), DSL, a, b); fflush(stdout);
	};
	if ((int) Buf::BIT_CAPACITY != EXPECT_BITS || (int) FSM::SERIAL_BITS != EXPECT_BITS || sizeof(Buf) * 8 < (size_t) EXPECT_BITS)
		fail("bit-capacity", -1, -1, "SerialBuffer::BIT_CAPACITY " + std::to_string((int) Buf::BIT_CAPACITY) + " / FSM::SERIAL_BITS " + std::to_string((int) FSM::SERIAL_BITS) + " / sizeof " + std::to_string(sizeof(Buf)) + " bytes, expected " + std::to_string(EXPECT_BITS) + " bits from the structure");
	std::string prev;
	for (int a = 0; a < 4 + NL; ++a) {
		FSM::Instance* src = new FSM::Instance(); bring(*src, a);
		const std::string want = config(*src);
		if (want != prev) { ++distinct; prev = want; }
		Boxed saved; src->save(*saved.buf);
		if (!saved.intact()) fail("save-outside-buffer", a, -1, "save() wrote outside the buffer");
		if (config(*src) != want) fail("save-changes-source", a, -1, "save() changed the source");
		for (int b = 0; b < 4; ++b) {
			FSM::Instance* dst = new FSM::Instance(); bring(*dst, b);
			dst->load(*saved.buf);
			++pairs;
			const std::string got = config(*dst);
			if (got != want) { size_t i = 0; while (i < got.size() && got[i] == want[i]) ++i; fail("config-differs", a, b, "first difference at state " + std::to_string(i) + ": saved '" + want[i] + "' loaded '" + got[i] + "'"); }
			Boxed again; dst->save(*again.buf);
			if (!again.intact()) fail("save-outside-buffer", a, b, "re-save wrote outside the buffer");
			if (memcmp(&saved.buf->data(), &again.buf->data(), sizeof(Buf::Data)) != 0) fail("resave-differs", a, b, "re-saved buffer is not bit-identical");
			delete dst;
		}
		delete src;
	}
	printf("{\"type\":\"summary\",\"states\":%d,\"transitions\":%ld,\"compared\":%ld,\"violations\":%ld,\"serial_bits\":%d,\"machine_states\":%d}\n", distinct, pairs, pairs, bad, EXPECT_BITS, STATES);
	return 0;
}
""")
    return "\n".join(out)


def run_big(chk, tier):
    specs, labels = [], []
    for i, dsl in enumerate(BIG_SHAPES[tier]):
        src = big_source(dsl)
        for vname, kw in (("gcc", dict(cxx="g++", std="c++14", opt="-O0")),
                          ("clang-asan", dict(cxx="clang++", std="c++14", opt="-O0", san=True))):
            specs.append(dict(src_text=src, name="c08_big%d" % i, allow_fail=True, **kw))
            labels.append("big%d/%s" % (i, vname))
    exes = vtlib.build_many(specs)
    cmds, lab2 = [], []
    for e, lb in zip(exes, labels):
        if e is None:
            chk.engine_error("c08 big machine %s did not compile" % lb)
        else:
            cmds.append([e]); lab2.append(lb)
    tot = dict(states=0, pairs=0)
    per = {}
    for lb, (recs, rc, err) in zip(lab2, vtlib.run_many(cmds, timeout=1200)):
        summ = [r for r in recs if r.get("type") == "summary"]
        for r in recs:
            if r.get("type") == "violation":
                chk.violation(r["fingerprint"], "[%s] %s" % (lb, r["message"]), dict(r.get("replay", {}), variant=lb))
        if rc != 0 or not summ:
            if rc == -999:
                chk.engine_error("c08 big %s: timeout" % lb)
            else:
                chk.violation("big/crash", "[%s] big-machine save/load harness stopped (rc=%s): %s" % (lb, rc, "\n".join(err.splitlines()[:8])),
                              {"harness": "c08_big", "variant": lb})
            continue
        per[lb] = {k: v for k, v in summ[0].items() if k != "type"}
        tot["states"] += summ[0]["states"]
        tot["pairs"] += summ[0]["transitions"]
    return tot, per


def run(tier):
    chk = vtlib.Check("C08", tier, "model_checking")
    thorough = tier == "thorough"
    progs = [p for p in en.curated() if en.st.serializable(p.root)]
    progs += [p for p in en.curated(manual=True) if en.st.serializable(p.root)]
    progs += en.curated(names=["mixed14", "headless", "ortho89"], cxx="clang++", std="c++14", san=True, asserts=True)
    args = ["--tier", tier, "--dev", "0", "--batch", "1", "--deadline", str(en.TD if thorough else 150)]
    if thorough:
        # program families: all ordered trees with <= 4 states and the spine family (kind chains of depth 3 / 4)
        fam = [p for p in en.systematic(4) + en.spines() if en.st.serializable(p.root)]
        for p in fam:
            p.args = ["--dev", "0", "--batch", "1", "--deadline", "90"]
        progs += fam
        chk.coverage["program_families"] = {"programs": len(fam), "rule": "all ordered trees with <= 4 states (every region kind headed; composite/resumable/orthogonal also headless) + spine family (kind chains of depth 3 in two orientations, depth 4 over C/O/R); serializable ones"}
    res = en.run_all(chk, "C08", progs, args, timeout=(en.TD + 900 if thorough else 400))
    en.aggregate(chk, res, "C08")
    tot, per = run_big(chk, tier)
    chk.coverage["big_machines"] = per
    chk.coverage["states"] += tot["states"]
    chk.coverage["transitions"] += tot["pairs"]
    chk.coverage["traces_validated_against_impl"] += tot["pairs"]
    chk.coverage["explanation"] = (
        "The reachable quiescent states of each serializable program are closed by BFS (incl. 'never entered' and "
        "'exited' under manual activation); then for EVERY ordered pair (source, destination) of them (capped at 500 "
        "(thorough 2500) states per program, cap reported per program) a fresh source instance saves into an exactly "
        "sized heap buffer, a fresh destination instance loads it: save() must not change the source or call back, the "
        "loaded active and resumable configuration must equal the saved one, exit()/enter() must be delivered for every "
        "state that stops/starts being active, the loading instance's lifecycle must stay balanced to destruction, "
        "re-saving must give a bit-identical buffer, and BIT_CAPACITY must equal the value computed from the structure. "
        "'transitions' counts the (source, destination) load edges; sanitizer builds catch out-of-buffer accesses. "
        "big_machines: machines whose serialization budget exceeds 255 bits (52..86 regions): every configuration out of "
        "{initial, all regions on their last / middle leaf, not activated, each single leaf requested} is saved into an "
        "exactly sized heap block between canaries and loaded into {initial, all-last, all-middle, not activated}; same "
        "oracles (configuration, bit-identical re-save, nothing written outside the block, BIT_CAPACITY from the structure).")
    chk.assumptions = ["width-1 composite regions do not compile with serialization and are excluded (compile-time limit of the library)",
                       "plans, history and pending marks are not part of the serialized state and are not compared"]
    return chk


def replay(path):
    return en.replay(path)
