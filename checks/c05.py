import vtlib
from checks import engine as en


def run(tier):
    chk = vtlib.Check("C05", tier, "model_checking")
    thorough = tier == "thorough"
    progs = (en.curated() + en.curated(bottom_up=True) +
             en.curated(names=["mixed14", "inject", "orthoroot"], bottom_up=True, cxx="clang++", std="c++14") +
             en.curated(names=["mixed14", "inject", "headless"], manual=True))
    classes = en.cls("CONSUME") | (en.cls("REQ") if thorough else 0)
    args = ["--tier", tier, "--dev", "2" if thorough else "1", "--batch", "1", "--classes", str(classes),
            "--deadline", str(1200 if thorough else 120)]
    res = en.run_all(chk, "C05", progs, args, timeout=(2000 if thorough else 300))
    en.aggregate(chk, res, "C05")
    chk.coverage["explanation"] = (
        "For every reachable configuration (BFS fixpoint) x {update, react, query} x {TopDown, BottomUp} x every choice "
        "of the state and phase in which the event/query is consumed (one deviation; thorough: two, plus requests from "
        "callbacks), the delivered callback sequence of each pass is compared with the sequence computed from the "
        "independent structure descriptor and the active configuration: pre/main passes head before sub-states "
        "(orthogonal siblings in declaration order), post passes sub-states before their head, reaction order per "
        "configuration, pass cut right after the consuming state, injected bases before the own handler on the way down "
        "and after it on the way up, query leaves the state key unchanged.")
    chk.assumptions = [
        "the order among several injected bases of one state, and of injected vs own query handlers, is not fixed by the statement: such runs are normalised before comparing",
        "programs: curated set incl. injected-base and lite-probe programs; trusted: g++/clang++, the structure descriptor",
    ]
    return chk


def replay(path):
    return en.replay(path)
