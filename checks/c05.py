import vtlib
from checks import engine as en


def run(tier):
    chk = vtlib.Check("C05", tier, "model_checking")
    thorough = tier == "thorough"
    progs = (en.curated() + en.curated(bottom_up=True) +
             en.curated(names=["mixed14", "inject", "orthoroot"], bottom_up=True, cxx="clang++", std="c++14") +
             en.curated(names=["mixed14", "inject", "headless"], manual=True))
    classes = en.cls("CONSUME", "REQ")
    args = ["--tier", tier, "--dev", "2" if thorough else "1", "--batch", "1", "--classes", str(classes),
            "--deadline", str(en.TD if thorough else 120)]
    if thorough:
        # program families: all ordered trees with <= 4 states and the spine family (kind chains of depth 3 / 4), d = 1, single requests
        fam = en.systematic(4) + en.spines()
        for p in fam:
            p.args = ["--dev", "1", "--batch", "1", "--deadline", "90"]
        progs += fam
        chk.coverage["program_families"] = {"programs": len(fam), "rule": "all ordered trees with <= 4 states (every region kind headed; composite/resumable/orthogonal also headless) + spine family (kind chains of depth 3 in two orientations, depth 4 over C/O/R)"}
    res = en.run_all(chk, "C05", progs, args, timeout=(en.TD + 900 if thorough else 300))
    en.aggregate(chk, res, "C05")
    chk.coverage["explanation"] = (
        "For every reachable configuration (BFS fixpoint) x {update, react, query} x {TopDown, BottomUp} x every choice "
        "of the state and phase in which the event/query is consumed (one deviation; thorough: two, plus requests from "
        "callbacks), the delivered callback sequence of each pass is compared with the sequence computed from the "
        "independent structure descriptor and the active configuration: pre/main passes head before sub-states "
        "(orthogonal siblings in declaration order), post passes sub-states before their head, reaction order per "
        "configuration, pass cut right after the consuming state, injected bases before the own handler on the way down "
        "and after it on the way up, query leaves the state key unchanged.")
    chk.assumptions = [
        "the order among several injected bases of one state, and of injected vs own query handlers, is not fixed by the statement: such runs are normalised before comparing",
        "programs: curated set incl. injected-base and lite-probe programs; trusted: g++/clang++, the structure descriptor",
    ]
    return chk


def replay(path):
    return en.replay(path)
