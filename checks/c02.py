import vtlib
from checks import engine as en


def run(tier):
    chk = vtlib.Check("C02", tier, "model_checking")
    thorough = tier == "thorough"
    progs = en.curated() + en.curated(names=["mixed14", "headless", "stratutil"], manual=True)
    # substitution limit 1: a single approved request fills the per-step bookkeeping exactly
    progs += [en.Prog("flat3-lim1", en.st.CURATED["flat3"], sublimit=1), en.Prog("deep3-lim1", en.st.CURATED["deep3"], sublimit=1)]
    classes = en.cls("REQ", "SELECT", "RNG", "UTIL", "RANK")
    args = ["--tier", tier, "--dev", "2" if thorough else "1", "--batch", "3" if thorough else "2",
            "--classes", str(classes), "--deadline", str(en.TD if thorough else 150), "--dev-immediate", "1" if thorough else "0"]
    if thorough:
        fam = en.systematic(4) + en.spines()
        for p in fam:
            p.args = ["--dev", "1", "--batch", "2"]
        progs += fam
        chk.coverage["systematic_family"] = {"programs": len(fam), "rule": "all ordered trees with <= 4 states: every region kind headed, composite/resumable/orthogonal also headless; plus the spine family (all kind chains of depth 3 in two orientations, depth 4 over C/O/R)"}
    if not thorough:
        for p in progs:
            if p.name in ("mixed14", "ortho89", "nestutil"):
                p.args = ["--batch", "1"]  # the big programs: all single requests + deviations; pairs are covered on the smaller ones
    res = en.run_all(chk, "C02", progs, args, timeout=(en.TD + 900 if thorough else 400))
    en.aggregate(chk, res, "C02")
    chk.coverage["explanation"] = (
        "Every edge of the exhaustive exploration (BFS fixpoint over quiescent states; all request kinds x all "
        "destinations externally and from update/react callbacks; all ordered batches up to the batch bound; every "
        "select()/rank()/utility() answer and exact generator output with <= dev deviations) is compared with a reference "
        "semantics written from the property text (engine/refmodel.hpp): full equality of the active configuration for a "
        "single transition request (plus scheduling requests); for batches the statement-level clauses (last request "
        "wins, earlier non-conflicting destinations stay active, untouched regions unchanged); resumable marks against "
        "the exit() callbacks actually delivered and schedule requests; reset() against the first activation; the empty "
        "step changes nothing. traces_validated_against_impl counts the edges on which prediction and implementation "
        "were compared.")
    chk.assumptions = [
        "policy (a): a resumable mark is only judged when the remembered sub-state is not the currently active one; policy (b): batches are judged by the statement-level clauses, agreement with the map model is only counted (c02_batch_model_differs_observed)",
        "vetoed steps and steps with plan activity are left to C04 / C06; steps whose weighted draw needs inexact float arithmetic are left to C12",
        "documented preconditions respected: select() below the width, utilities positive, generator outputs in [0,1), no cancel during the first activation; programs with headless composite-style regions do not use select/randomize (their anonymous head cannot answer select())",
        "deviation bound and batch bound as reported per program; states are canonical keys (active + resumable prongs, plans, pending marks)",
        "trusted: g++, the -fno-access-control probe used for the state key, the independent structure descriptor (cross-checked against the library's registry before exploring)",
    ]
    return chk


def replay(path):
    return en.replay(path)
