import hashlib
import itertools
import os
import shutil
import subprocess

import vtlib
from checks import engine as en

F = ["HFSM2_ENABLE_PLANS", "HFSM2_ENABLE_SERIALIZATION", "HFSM2_ENABLE_TRANSITION_HISTORY", "HFSM2_ENABLE_STRUCTURE_REPORT",
     "HFSM2_ENABLE_UTILITY_THEORY", "HFSM2_ENABLE_LOG_INTERFACE", "HFSM2_ENABLE_VERBOSE_DEBUG_LOG", "HFSM2_ENABLE_DEBUG_STATE_TYPE"]

# strength-2 covering array over 8 binary switches (every pair of switches takes all four value combinations)
COVER2 = ["00000000", "11111111", "01010101", "10101010", "00110011", "11001100", "00001111", "11110000",
          "01100110", "10011001", "01101001", "10010110"]


def feats(bits):
    return [f for f, b in zip(F, bits) if b == "1"]


def join_identical(chk):
    """tools/join.py over development/ must reproduce include/hfsm2/machine.hpp byte for byte"""
    tmp = "/var/tmp/vt_join_%d" % os.getpid()
    shutil.rmtree(tmp, ignore_errors=True)
    os.makedirs(tmp)
    try:
        for d in ("development", "tools", "include"):
            shutil.copytree(os.path.join(vtlib.REPO, d), os.path.join(tmp, d))
        subprocess.run(["python3", "join.py"], cwd=os.path.join(tmp, "tools"), check=True, stderr=subprocess.DEVNULL, stdout=subprocess.DEVNULL)
        a = open(os.path.join(tmp, "include", "hfsm2", "machine.hpp"), "rb").read()
        b = open(os.path.join(vtlib.REPO, "include", "hfsm2", "machine.hpp"), "rb").read()
        if a != b:
            chk.violation("join/single-header-differs", "tools/join.py over development/ does not reproduce include/hfsm2/machine.hpp (%d vs %d bytes)" % (len(a), len(b)),
                          {"cmd": "cd tools && python3 join.py; diff"})
        return a == b
    finally:
        shutil.rmtree(tmp, ignore_errors=True)


def run(tier):
    chk = vtlib.Check("C15", tier, "exploration")
    thorough = tier == "thorough"
    same_join = join_identical(chk)
    families = {"deep3": en.st.CURATED["deep3"], "orthoroot": en.st.CURATED["orthoroot"], "headless": en.st.CURATED["headless"]}
    if thorough:
        families["mixed14"] = en.st.CURATED["mixed14"]
    rows = ["".join(b) for b in itertools.product("01", repeat=8)] if thorough else COVER2
    progs = []
    for fam, dsl in families.items():
        fam_rows = rows if (fam == "deep3" or not thorough) else COVER2
        for i, bits in enumerate(fam_rows):
            # rotate the other axes so that every value of every axis meets every program family
            payload = ["void", "int"][i % 2]
            sublimit = [4, 8][(i // 2) % 2]
            flavour = ["single", "dev"][(i // 3) % 2]
            cxx, std = [("g++", "c++11"), ("clang++", "c++14"), ("g++", "c++17"), ("clang++", "c++17")][i % 4]
            taskcap = [None, 12][(i // 5) % 2]
            # the reaction order changes behaviour by design: it splits a family into two groups that are compared separately
            bottom_up = i % 3 == 0
            p = en.Prog(fam, dsl, features=feats(bits), payload=payload, sublimit=sublimit, flavour=flavour, cxx=cxx, std=std, taskcap=taskcap, bottom_up=bottom_up)
            p.label = "%s[%s %s lim%d %s %s %s%s%s]" % (fam, bits, payload, sublimit, flavour, cxx, std, " cap12" if taskcap else "", " bottom-up" if bottom_up else "")
            p.family = fam + ("/bottom-up" if bottom_up else "")
            p.extra = []
            progs.append(p)
    # plan-owning program, plans enabled in every row, external succeed()/fail() calls in the alphabet (status marks and their
    # clearing are feature-configuration sensitive code: payload / void specialisations of the plan data)
    plan_rows = [b for b in rows if b[0] == "1"] if not thorough else [b for b in COVER2 if b[0] == "1"] + ["11101111", "10000000", "11000000"]
    for j, bits in enumerate(plan_rows):
        payload = ["void", "int", "over"][j % 3]
        taskcap = [None, 20][(j // 2) % 2]
        cxx, std = [("g++", "c++17"), ("clang++", "c++14")][j % 2]
        p = en.Prog("plannest", en.st.CURATED["plannest"], features=feats(bits), payload=payload, taskcap=taskcap, cxx=cxx, std=std)
        p.label = "plannest+marks[%s %s %s %s%s]" % (bits, payload, cxx, std, " cap20" if taskcap else "")
        p.family = "plannest/marks"
        p.extra = ["--marks", "1"]
        progs.append(p)
    ok, failed = en.build_all(progs)
    args = ["--prop", "C01,C03", "--tier", tier, "--common", "1", "--dev", "1", "--batch", "2", "--classes", str(en.cls("REQ", "GUARD", "CONSUME", "SELECT")),
            "--dev-immediate", "1", "--imm-reduced", "1", "--deadline", str(en.TD if thorough else 140)]
    results = vtlib.run_many([[p.exe] + args + p.extra for p in ok], timeout=(en.TD + 900 if thorough else 400))
    groups = {}
    evaluations = 0
    samples = []
    for p, (recs, rc, err) in zip(ok, results):
        summ = [r for r in recs if r.get("type") == "summary"]
        for v in [r for r in recs if r.get("type") == "violation"]:
            chk.violation("behaviour/" + v["fingerprint"], "[%s] %s" % (p.label, v["message"]), v.get("replay", {}))
        if rc != 0 or not summ:
            chk.violation("crash/" + p.family, "[%s] explorer did not finish: %s" % (p.label, (err or "")[:800]), {"label": p.label})
            continue
        s = summ[0]
        evaluations += s["transitions"]
        groups.setdefault(p.family, []).append((p, s))
    distinct_cfgs = 0
    for fam, lst in groups.items():
        ref_p, ref = lst[0]
        complete = [x for x in lst if x[1]["fixpoint"]]
        distinct_cfgs += len(lst)
        for p, s in lst[1:]:
            if not (s["fixpoint"] and ref["fixpoint"]):
                continue
            if (s["digest"], s["states"], s["transitions"]) != (ref["digest"], ref["states"], ref["transitions"]):
                chk.violation("digest/%s" % fam, "the same program driven the same way behaves differently under [%s] than under [%s] (digest %s vs %s, %d vs %d states, %d vs %d executions)" %
                              (p.label, ref_p.label, s["digest"], ref["digest"], s["states"], ref["states"], s["transitions"], ref["transitions"]),
                              {"a": p.label, "b": ref_p.label, "cfg_a": p.cfg, "cfg_b": ref_p.cfg})
        if len(samples) < 4:
            samples.append({"family": fam, "dsl": ref["dsl"], "digest": ref["digest"], "states": ref["states"], "executions": ref["transitions"],
                            "configurations_agreeing": len(complete), "example_configuration": ref_p.label})
    not_compilable = []
    for p in failed:
        try:
            vtlib.build(**{**p.spec(), "allow_fail": False})
        except vtlib.BuildError as e:
            first = [l for l in str(e).splitlines() if "error" in l][:1]
            not_compilable.append({"configuration": p.label, "first_error": (first[0][-300:] if first else "?")})
    chk.coverage = {
        "evaluations": evaluations,
        "distinct_nontrivial": distinct_cfgs,
        "rule": "one evaluation = one explored execution (BFS fixpoint + batches + 1 callback deviation, alphabet restricted to the feature-independent subset); "
                "distinct_nontrivial = number of distinct (program family, feature combination, payload, substitution limit, task capacity, header flavour, compiler, -std) "
                "builds that compiled and whose whole-exploration behaviour digest was compared within its family",
        "samples": samples,
        "exhaustive": all(s["fixpoint"] for lst in groups.values() for _, s in lst),
        "feature_rows": len(rows), "builds": len(progs), "compiled": len(ok),
        "not_compilable": not_compilable[:40], "not_compilable_count": len(not_compilable),
        "join_py_reproduces_single_header": same_join,
    }
    chk.assumptions = [
        "combinations that do not compile are outside the property's quantifier ('a program compiles under') and are listed, not judged (known: SERIALIZATION + STRUCTURE_REPORT without TRANSITION_HISTORY)",
        "quick: strength-2 covering array over the 8 switches; thorough: all 256 combinations for one family, covering array for the others; the remaining axes are rotated across rows",
        "the digest covers every callback, request, answer, resulting state key and active/resumable flags of every explored execution",
    ]
    return chk


def replay(path):
    return en.replay(path)
