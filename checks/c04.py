import vtlib
from checks import engine as en

QUICK = ["flat3", "deep3", "strat3", "orthoroot", "nestedortho", "width1", "inject", "headless", "wide5", "nestsel"]


def run(tier):
    chk = vtlib.Check("C04", tier, "model_checking")
    thorough = tier == "thorough"
    names = None if thorough else QUICK
    progs = [p for p in en.curated(names=names) if p.name != "lite"]
    progs += [p for p in en.curated(names=["deep3", "orthoroot", "headless"], manual=True)]
    progs += [en.Prog(n + "-lim1", en.st.CURATED[n], sublimit=1) for n in ("deep3", "orthoroot")]
    progs += [en.Prog(n + "-lim2", en.st.CURATED[n], sublimit=2) for n in ("deep3", "nestedortho")]
    classes = en.cls("GUARD") | (en.cls("REQ") if thorough else 0)
    args = ["--tier", tier, "--dev", "2" if thorough else "1", "--batch", "2" if thorough else "1", "--classes", str(classes),
            "--dev-immediate", "1", "--imm-reduced", "0" if thorough else "1", "--deadline", str(en.TD if thorough else 150)]
    if thorough:
        args += ["--initial-cancel", "1"]
    if not thorough:
        # the two smallest programs (flat; orthogonal root) once more with two deviations (e.g. a guard-issued follow-up request that is vetoed in its round)
        d2 = en.curated(names=["flat3"]) + [en.Prog("tinyortho", "O(C(l,l),l)"), en.Prog("tinyortho2", "C(O(l,l),l)")]
        for p in d2:
            p.args = ["--dev", "2", "--initial-cancel", "1"]
            p.label += "/dev2"
        progs += d2
        # pairs of requests (no callback deviations) on the programs with two composite prongs / deep nesting under an orthogonal region
        b2 = en.curated(names=["orthopair", "orthodeep", "orthoroot"])
        for p in b2:
            p.args = ["--batch", "2", "--dev", "0"]
            p.label += "/batch2"
        progs += b2
    if thorough:
        # program families: all ordered trees with <= 4 states and the spine family (kind chains of depth 3 / 4), d = 1, single requests
        fam = en.systematic(4) + en.spines()
        for p in fam:
            p.args = ["--dev", "1", "--batch", "1", "--deadline", "90"]
        progs += fam
        chk.coverage["program_families"] = {"programs": len(fam), "rule": "all ordered trees with <= 4 states (every region kind headed; composite/resumable/orthogonal also headless) + spine family (kind chains of depth 3 in two orientations, depth 4 over C/O/R)"}
    res = en.run_all(chk, "C04", progs, args, timeout=(en.TD + 900 if thorough else 400))
    en.aggregate(chk, res, "C04")
    chk.coverage["explanation"] = (
        "From every reachable quiescent state, every request op is run with every guard decision vector of <= dev "
        "deviations (which guard cancels; cancel + substitute kind x state; extra request without cancel) plus the "
        "adversarial scripts in which one guard repeats its decision in every round; substitution limits 1, 2 and 4. "
        "Per processing call a trace monitor reconstructs the rounds and checks: all guards precede any lifecycle "
        "callback, exit guards before entry guards within a round, every exited/entered/re-entered state was guarded in an "
        "approved round with the request visible as pending, rounds <= limit; and differentially: 'X vetoed, Y "
        "substituted' must equal 'Y alone' in configuration, resumable marks and lifecycle callback sequence, 'X vetoed' "
        "must change nothing but scheduling effects.")
    chk.assumptions = [
        "rounds are reconstructed from the guard callbacks (cancel flag reset, exit-after-entry, repetition); programs whose probes do not override guards are excluded",
        "a request left queued when the substitution limit is hit is counted, not judged (the statement only bounds the rounds); such states are not expanded",
    ]
    return chk


def replay(path):
    return en.replay(path)
