import vtlib
from checks import engine as en


def run(tier):
    chk = vtlib.Check("C14", tier, "model_checking")
    thorough = tier == "thorough"
    base = ["flat3", "deep3", "orthoroot", "nestedortho"] + (["strat3", "mixed14", "headless", "wide5"] if thorough else [])
    progs = []
    for pay in ("int", "fat", "over"):
        progs += en.curated(names=base if pay == "int" or thorough else base[:3], payload=pay)
    progs += en.curated(names=["deep3", "orthoroot"], payload="over", cxx="clang++", std="c++14", san=True, asserts=True)
    progs += en.curated(names=["deep3"], payload="fat", manual=True)
    # substitution limit 1: a single approved request fills the per-step history exactly
    progs += [en.Prog("flat3-lim1", en.st.CURATED["flat3"], sublimit=1, payload="int"), en.Prog("deep3-lim1", en.st.CURATED["deep3"], sublimit=1, payload="over")]
    plan_progs = en.curated(names=["plannest", "planortho"], payload="int") + en.curated(names=["plannest"], payload="over")
    for p in plan_progs:
        p.args = ["--mode", "plans", "--classes", str(en.cls("STATUS", "PLANRESULT")), "--dev", "2", "--batch", "1"]
        p.label += "/plans"
    args = ["--tier", tier, "--dev", "2" if thorough else "1", "--batch", "2", "--classes", str(en.cls("REQ", "GUARD")),
            "--dev-immediate", "1", "--imm-reduced", "1", "--deadline", str(en.TD if thorough else 90)]
    res = en.run_all(chk, "C14", progs + plan_progs, args, timeout=(en.TD + 900 if thorough else 400))
    en.aggregate(chk, res, "C14")
    chk.coverage["explanation"] = (
        "Three payload types (int, struct{double;char}, alignas(16) struct) x generated programs: every request of the "
        "exhaustive exploration (external changeWith & co., all seven ...With variants from callbacks, guard-issued "
        "substitutes, plan tasks with payload) carries a unique tag, mixed with payload-less requests. In-callback "
        "monitors read GuardControl::pendingTransitions(), currentTransitions() (guards, enter/exit/reenter), "
        "lastTransition() and previousTransitions() (update/react) and after each step previousTransitions() / "
        "lastTransitionTo(s): the tag read must belong to the request with the same origin, kind and destination, "
        "payload-less requests expose nullptr, and the pointer is suitably aligned. counters.c14_transitions_inspected "
        "is the number of transition objects inspected.")
    chk.assumptions = ["payload values are tags from a small range; payload types are three representatives (trivially copyable)",
                       "which transition activated a state is C09's subject; here every exposed transition must be internally consistent with what was attached to it"]
    return chk


def replay(path):
    return en.replay(path)
