import vtlib
from checks import engine as en


def run(tier):
    chk = vtlib.Check("C03", tier, "model_checking")
    thorough = tier == "thorough"
    progs = en.curated() + en.curated(names=["mixed14", "headless", "stratutil"], manual=True)
    classes = en.cls("REQ", "GUARD", "SELECT", "RNG", "UTIL", "RANK")
    args = ["--tier", tier, "--dev", "2" if thorough else "1", "--batch", "3" if thorough else "2",
            "--classes", str(classes), "--deadline", str(en.TD if thorough else 150), "--dev-immediate", "1" if thorough else "0"]
    if thorough:
        fam = en.systematic(4) + en.spines()
        for p in fam:
            p.args = ["--dev", "1", "--batch", "2"]
        progs += fam
        chk.coverage["systematic_family"] = {"programs": len(fam), "rule": "all ordered trees with <= 4 states: every region kind headed, composite/resumable/orthogonal also headless; plus the spine family (all kind chains of depth 3 in two orientations, depth 4 over C/O/R)"}
    if not thorough:
        for p in progs:
            if p.name in ("mixed14", "ortho89", "nestutil"):
                p.args = ["--batch", "1"]  # the big programs: all single requests + deviations; pairs are covered on the smaller ones
    res = en.run_all(chk, "C03", progs, args, timeout=(en.TD + 900 if thorough else 400))
    en.aggregate(chk, res, "C03")
    chk.coverage["explanation"] = (
        "Same exhaustive exploration as C03's sibling checks (BFS fixpoint over quiescent states x deviation-bounded "
        "callback decisions); every execution is extended to the destruction of the instance (manual: exit() first) and "
        "a per-state lifecycle automaton runs over the complete callback trace from construction to destruction: enter/"
        "exit alternate starting with enter, update/react/query/reenter/exitGuard/exit only while entered, enter after the "
        "parent and exit before it, nothing entered at the end, and every callback's this equals &access<State>().")
    chk.assumptions = [
        "documented preconditions respected: select() below the width, utilities positive, generator outputs in [0,1), no cancel during the first activation; programs with headless composite-style regions do not use select/randomize (their anonymous head cannot answer select())",
        "deviation bound and batch bound as reported per program; states are canonical keys (active + resumable prongs, plans, pending marks)",
        "trusted: g++, the -fno-access-control probe used for the state key, the independent structure descriptor (cross-checked against the library's registry before exploring)",
    ]
    return chk


def replay(path):
    return en.replay(path)
