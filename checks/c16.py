import vtlib
from checks import engine as en

QUICK = ["flat3", "deep3", "orthoroot", "stratutil", "headless", "lite", "inject", "plannest", "nestedortho"]


def run(tier):
    chk = vtlib.Check("C16", tier, "model_checking")
    thorough = tier == "thorough"
    names = None if thorough else QUICK
    progs = en.curated(names=names)
    progs += en.curated(names=["deep3", "lite", "headless", "inject", "plannest"], verbose_log=True)
    progs += en.curated(names=["deep3", "lite"], manual=True)
    # selectable regions below utilitarian / random parents (and the reverse): the resolution reports of different kinds interleave
    progs += [en.Prog("selinutil", "C(U(l,S(l,l)),l)"), en.Prog("selinrand", "C(N(S(l,l),l),l)"), en.Prog("utilinsel", "C(S(U(l,l),N(l,l)),l)")]
    classes = en.cls("REQ", "GUARD", "CONSUME", "STATUS", "PLANRESULT", "SELECT", "RNG")
    args = ["--tier", tier, "--dev", "2" if thorough else "1", "--batch", "1", "--classes", str(classes),
            "--dev-immediate", "1", "--imm-reduced", "1", "--deadline", str(en.TD if thorough else 150)]
    if not thorough:
        # the two smallest programs once more with two deviations (e.g. two guards cancelling in the same round)
        d2 = en.curated(names=["flat3"]) + [en.Prog("tinyortho", "O(C(l,l),l)"), en.Prog("tinyortho2", "C(O(l,l),l)")]
        for p in d2:
            p.args = ["--dev", "2", "--classes", str(en.cls("REQ", "GUARD")), "--initial-cancel", "1"]
            p.label += "/dev2"
        progs += d2
    if thorough:
        # program families: all ordered trees with <= 4 states and the spine family (kind chains of depth 3 / 4)
        fam = [p for p in en.systematic(4) + en.spines()]
        for p in fam:
            p.args = ["--dev", "1", "--batch", "1", "--deadline", "90"]
        progs += fam
        chk.coverage["program_families"] = {"programs": len(fam), "rule": "all ordered trees with <= 4 states (every region kind headed; composite/resumable/orthogonal also headless) + spine family (kind chains of depth 3 in two orientations, depth 4 over C/O/R)"}
    res = en.run_all(chk, "C16", progs, args, timeout=(en.TD + 900 if thorough else 400))
    en.aggregate(chk, res, "C16")
    chk.coverage["explanation"] = (
        "The exhaustive exploration runs with a recording logger attached (interface mode and verbose mode; programs "
        "where some states override only a few callbacks). On every edge the logger record is merged with the trace the "
        "callbacks themselves write: each invoked user callback has exactly one recordMethod() just before it, each "
        "request / cancel / succeed / fail issued by the environment exactly one recordTransition / "
        "recordCancelledPending / recordTaskStatus right after it, plan results and select/utility/random resolutions "
        "match the answers given, and nothing is reported that did not happen; every base edge is re-run without a "
        "logger and must give the identical trace and state. After every step structure()[i].isActive == isActive(i) and "
        "the sign of activityHistory(); a 300-step deterministic tail checks the saturating recurrence exactly.")
    chk.assumptions = ["reports for methods a state does not override (verbose mode; the templated react/query family in interface mode) are tolerated and counted",
                       "an orthogonal region reports a utility resolution without a prong"]
    return chk


def replay(path):
    return en.replay(path)
