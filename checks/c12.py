"""C12: utilize picks the greatest utility (first on ties), randomize picks by cumulative-utility interval among the top rank.

harness/c12_utility.cpp drives the real machine: the states read rank()/utility() from tables in the context, the
generator is a scripted object that returns the next value of a list and counts its calls. Flat Utilitarian / Random
regions of width 2..5 and three nested structures, each request issued as immediateUtilize / immediateRandomize on the
region and as immediateChangeTo (the region's declared strategy), on a fresh instance and inside sequences on a
long-lived instance (re-request while active, away to idle and back). Exact domain: integer oracle, strict equality.
Rounding domain: hard rules (something selected, top rank, utility > 0, one generator call) + tolerant interval rule.
"""
import json
import os

import vtlib
from checks.component import run_component

SRC = "c12_utility.cpp"
NAME = "c12_utility"

GCC = dict(cxx="g++", std="c++17", opt="-O1")
# the sanitizer builds are ~5x slower: -DVT_REDUCED thins width 5 of the exact domain and the sampled parts (same code paths)
VARIANTS = [
    ("gcc", GCC),
    ("clang-asan-assert", dict(cxx="clang++", std="c++14", opt="-O1", san=True, flags=["-DVT_ASSERT", "-DVT_REDUCED"])),
    ("gcc-dev-c++11", dict(cxx="g++", std="c++11", opt="-O1", flavour="dev")),
]
VARIANTS_THOROUGH = VARIANTS + [
    ("clang-O2-c++11", dict(cxx="clang++", std="c++11", opt="-O2")),
    ("gcc-asan-assert", dict(cxx="g++", std="c++14", opt="-O1", san=True, flags=["-DVT_ASSERT", "-DVT_REDUCED"])),
]

RULE = ("An input vector is (machine, addressed region, request kind utilize|randomize|changeTo, rank and utility of every state, "
        "scripted generator outputs), evaluated on a FRESH instance; its 64-bit hash is recorded and duplicates are subtracted, so "
        "distinctness is measured (duplicate_fresh_cases). A vector counts as non-trivial when the oracle, while evaluating it, "
        "met at least one of: (a) tie_for_max: a region resolved by utility where two or more sub-states share the greatest "
        "utility; (b) zero_utility_in_top_rank: a region resolved at random with a top-rank sub-state of utility 0; (c) mixed_ranks: a "
        "region resolved at random whose sub-states do not all have the same rank; (d) r at a boundary: exact domain r*sum equal to "
        "the lower end of the selected cumulative interval (r = 0 included), rounding domain r*sum within 2 ulp(sum) of any cumulative "
        "boundary (0 and the sum included) or r <= 2^-23 or r >= 1-2^-22; (e) nested_regions: the machine is one of the nested "
        "structures (region inside utilitarian/random region, orthogonal region with head x mean, utilitarian/random region inside "
        "an orthogonal region inside a composite). The number is that of one full-range process (variant gcc); it is the same set in "
        "every variant and is not summed. evaluations = checked requests (fresh + inside sequences), summed over all processes. "
        "Enumerated completely: exact domain flat width 2..4 (quick; thorough also width 5): ranks {-1,0,1}^w x utilities {0,1,2,3}^w "
        "(positive top-rank sum) x r = k/64, through immediateRandomize(Random region), immediateChangeTo(Random region) and "
        "immediateRandomize(Utilitarian region); utilize: utilities {0..3}^w x 3 rank vectors through immediateUtilize / "
        "immediateChangeTo(Utilitarian region) / immediateUtilize(Random region). Rounding domain: every w-tuple (w = 2..5) over "
        "{0, 2^-24, 0.1, 1/3, 1, 3, 1e10, 2*FLT_MIN} x rank vectors (all equal + sampled mixed; thorough: all 3^w for w <= 3) x r in "
        "{0, 2^-24, 0.5, 1-2^-23, 1-2^-24, and per cumulative boundary the float nearest to boundary/sum and its two neighbours}; "
        "plus sampled (fixed seed) utility vectors with full 24-bit mantissas (uniform in [0,1), scaled by 2^-20..2^20, with zeros) "
        "under the same generator outputs. "
        "Nested structures: sampled vectors (fixed seed) over the exact domain.")


def _variants(tier):
    return VARIANTS_THOROUGH if tier == "thorough" else VARIANTS


def run(tier):
    chk = vtlib.Check("C12", tier, "exploration")
    variants = _variants(tier)
    totals, samples, per_variant, extra = run_component(
        chk, SRC, tier, variants=variants, timeout=3000, sum_keys=("evaluations",))
    prim = per_variant.get("gcc") or next(iter(per_variant.values()), {})
    # the same binary must have explored the same case set in the two full-range g++ builds
    a, b = per_variant.get("gcc"), per_variant.get("gcc-dev-c++11")
    if a and b and not (a.get("violations") or b.get("violations")):
        for k in ("evaluations", "distinct_nontrivial", "fresh_cases"):
            if a.get(k) != b.get(k):
                chk.engine_error("c12_utility: gcc and gcc-dev-c++11 explored different case sets (%s: %s vs %s)" % (k, a.get(k), b.get(k)))
    for v, s in per_variant.items():
        if not s.get("distinctness_measured", 1):
            chk.engine_error("c12_utility[%s]: hash table of fresh cases overflowed, distinctness not measured" % v)
    chk.coverage = {
        "evaluations": totals["evaluations"],
        "distinct_nontrivial": int(prim.get("distinct_nontrivial", 0)),
        "rule": RULE,
        "samples": samples,
        # the property quantifies over all finite floats and all nestings: only sub-spaces are enumerated completely
        "exhaustive": False,
        "exhaustive_subspaces": [
            "exact domain, flat regions of width 2..%d: all ranks {-1,0,1}^w x utilities {0,1,2,3}^w x r = k/64 (k = 0..63) x 3 request paths"
            % (5 if tier == "thorough" else 4),
            "utilize, flat regions of width 2..5: all utilities {0,1,2,3}^w and all w-tuples over the 8 rounding values x 3 request paths",
            "rounding domain, flat regions of width 2..5: all w-tuples over the 8 values with equal ranks x the boundary-derived generator outputs",
        ],
        "one_full_process": {k: prim.get(k) for k in (
            "evaluations", "fresh_cases", "duplicate_fresh_cases", "sequence_requests", "exact_cases", "rounding_cases", "random_cases",
            "utilize_cases", "skipped_outside_precondition", "with_tie_for_max", "with_zero_utility_in_top_rank", "with_mixed_ranks",
            "with_r_at_boundary", "with_nested_regions", "none_selected", "none_selected_r_1m2e23", "none_selected_r_1m2e24",
            "none_selected_other_r", "rounding_neighbour_accepted", "permutation_accepted", "draws_differ_from_model",
            "fresh_cases_per_machine", "fingerprint_counts")},
        "processes": len(per_variant),
        "per_variant": per_variant,
        "explanation": "Real FSM::Instance with Config::RandomT<scripted generator>; oracle = the property transcribed into dyadic-rational "
                       "integer arithmetic (exact domain, strict equality of the whole activated configuration below the addressed region) and "
                       "long-double interval membership with a 4 ulp(sum) tolerance plus tolerance-free hard rules (rounding domain).",
    }
    chk.assumptions = [
        "only headed regions with user-defined heads (anonymous heads of headless regions report utility 0: outside this property)",
        "exact domain: utilities are small dyadic rationals and r = k/64, so every float operation of the library is exact and equality is demanded; "
        "orthogonal regions there have width 2 or 4 so that the mean is exact",
        "rounding domain: flat regions only; the reference sum and r*sum are computed in x87 long double (64-bit mantissa), whose error is 2^-40 of the "
        "4 ulp(sum) tolerance; a neighbouring sub-state is accepted only if r*sum is within 4 ulp(sum) of its interval, and only if it has the top rank and utility > 0",
        "inputs outside the property's precondition (a random resolution whose top-rank utilities sum to 0) are not executed; nested random regions are only "
        "driven on the exact domain (where the cumulative walk cannot fall off), the fall-off finding is demonstrated on flat regions",
        "nested regions: which of several random regions of one request reads which generator output is not promised; an observation is accepted if some "
        "assignment of the consumed outputs explains it (permutation_accepted counts these; 0 on the current tree); generator calls are bounded by "
        "[#random regions activated, #random regions of the re-targeted sub-tree], exactly 1 for a flat region, 0 for utilize",
        "under changeTo a nested Resumable region is modelled as the library does: it re-enters the sub-state it left last, and forgets that mark when this "
        "sub-state is entered again (the mark itself belongs to C02/C13)",
        "nested structures and mixed rank vectors of wide regions in the rounding domain are sampled with a fixed seed, not enumerated",
        "the sanitizer builds (-DVT_REDUCED) run a thinned width-5 / sampled part of the same enumeration",
        "library HFSM2_BREAK()/assertions are counted through the verification hook; one that accompanies a 'nothing selected' outcome is folded into random/none-selected",
    ]
    return chk


def _args(rp):
    steps = ";".join(rp.get("steps", []))
    return ["replay", rp["machine"], str(rp["target"]), rp["request"], rp.get("domain", "exact"),
            ",".join(str(x) for x in rp["ranks"]), ",".join(rp["utilities_hex"]), steps]


def replay(path):
    rec = json.load(open(path))
    rp = rec.get("replay", {})
    if "machine" not in rp:
        print("not a single-case replay (%s): run the tier again" % rec.get("fingerprint"))
        return 2
    kw = dict(VARIANTS_THOROUGH).get(rp.get("variant"), GCC)
    src = open(os.path.join(vtlib.VERIF, "harness", SRC)).read()
    exe = vtlib.build(src_text=src, name=NAME, **kw)
    recs, rc, err = vtlib.run_json([exe] + _args(rp), timeout=600)
    hits = [r for r in recs if r.get("type") == "violation"]
    for r in hits:
        print("REPRODUCED %s: %s" % (r["fingerprint"], r["message"]))
    if rc != 0:
        print("harness exited rc=%s\n%s" % (rc, err[-2000:]))
    if not hits and rc == 0:
        print("not reproduced: %s holds on this tree for the recorded case" % rec.get("fingerprint"))
    return 1 if hits or rc != 0 else 0
