"""C17 - identifiers and structural metadata follow the declaration for every shape.

Enumeration (no sampling inside the stated bounds):
  trees     ALL ordered trees with <= N states over {composite, orthogonal} x {headed, headless}   (N = 5 quick, 7 thorough)
  strategy  every tree with <= M states again with its composite-style regions re-labelled R/S/U/N  (M = 4 quick, 5 thorough)
  wide      regions of every width 1..17 at nesting depth 0, 1 and 2: leaf-only composites / orthogonals (headed and
            headless), children that are themselves regions (so the halves of the balanced split differ in states,
            composite and orthogonal regions and bit units) and orthogonal regions that follow a wide orthogonal sibling
  big       (thorough) a few machines with 150..300 states / 70+ regions
Each shape is a namespace in a generated translation unit (PACK shapes per TU); harness/c17_meta.hpp compares
  oracle 1  stateId<>() / regionId<>() (/ contains<>() once it can be instantiated, see PROBE_CONTAINS) of every named state and
            STATE_COUNT REGION_COUNT COMPO_COUNT ORTHO_COUNT ORTHO_UNITS Apex::COMPO_PRONGS Apex::WIDTH TASK_CAPACITY (default)
            ACTIVE_BITS RESUMABLE_BITS SERIAL_BITS as published by FSM (RF_), FSM::Apex, FSM::Args with the independent
            numbering of gen/structures.py - as run-time comparisons of the compile-time constants, so that a mismatch is
            reported with expected/actual values;
  oracle 2  the registry written by deepRegister() of a constructed instance (stateParents, compoParents, orthoParents,
            orthoUnits, regionHeads, regionSizes), the constants re-published by the instance, container capacities
            (task pool, serial buffer), and - one variant - the order of structure();
  peers     for a subset the same shape is written twice (S0.. / T0..) and the two machines are compared directly.
A TU that does not compile (e.g. the library's own static_assert(STATE_ID == HEAD_ID) fires because an index offset is
wrong) is never an engine error: its shapes are re-built one per TU (BISECT_BUDGET per variant) to attribute a
"compile/instance" violation to each offending shape, and whatever does not compile with the instance part is re-built
without it (-DVT17_NO_INSTANCE) so that identifiers and counts are still compared value by value.
"""
import json
import os
import time

import vtlib
from gen import structures as S

PACK = 64           # shapes per translation unit
STATE_BUDGET = 600  # ... or this many states per TU (wide shapes)
BISECT_BUDGET = 192  # single-shape rebuilds per variant when TUs do not compile

RULE = (
    "Exhaustive enumeration of ordered trees (see 'bounds') plus the wide/strategy/big families; one case = one shape (DSL string). "
    "A shape counts as non-trivial when at least one of: (a) a region sits in the right half of a balanced split and the left half "
    "before it is not made of leaves only (so the RHalf state/compo/ortho/unit offsets are not all equal to the prong), "
    "(b) it has a headless region that is not the root (an anonymous head must occupy an identifier in the middle of the numbering), "
    "(c) it has an orthogonal region whose bit-unit offset is non-zero, (d) it has an orthogonal region wider than 8 "
    "(contain(WIDTH, 8) > 1), (e) a composite region of odd width >= 3 (unequal halves). distinct_nontrivial is the measured number "
    "of distinct shapes satisfying the rule; shapes re-checked by other compiler variants are not counted again."
)


# --------------------------------------------------------------------------------------------------
# enumeration

def _leaves(w):
    return ",".join(["l"] * w)


def _cycle(w, items):
    return ",".join(items[i % len(items)] for i in range(w))


def wide_shapes():
    out = []
    mixed = ["l", "C(l,l)", "O(l,l)", "o(l,C(l,l),l)", "c(l,l,l)"]
    mixed9 = ["O(l,l,l,l,l,l,l,l,l)", "l", "C(l,l)", "o(l,l)"]
    for w in range(1, 18):
        L = _leaves(w)
        fam = [
            # depth 0
            "C(%s)" % L, "c(%s)" % L,
            "O(C(l,l)%s)" % ("," + _leaves(w - 1) if w > 1 else ""), "o(%sc(l,l))" % (_leaves(w - 1) + "," if w > 1 else ""),
            "C(%s)" % _cycle(w, ["C(l,l)"]), "C(%s)" % _cycle(w, mixed), "c(%s)" % _cycle(w, mixed[::-1]),
            "C(%s)" % _cycle(w, mixed9), "O(C(l,l),%s)" % _cycle(w, mixed9),
            # depth 1
            "C(l,C(%s))" % L, "C(C(%s),l)" % L, "c(l,c(%s),l)" % L, "C(l,O(%s),l)" % L, "C(O(%s),O(l,l),l)" % L,
            "C(O(l,l),o(%s))" % L, "O(C(%s),C(%s))" % (L, L), "C(O(%s),O(%s),O(%s))" % (L, L, L),
            "C(l,C(%s),l)" % _cycle(w, mixed), "C(l,O(%s),O(l,l,l))" % _cycle(w, mixed),
            # depth 2
            "C(C(l,l),C(l,C(%s)))" % L, "C(l,O(l,O(%s),C(l,l)))" % L, "C(O(l,O(%s)),O(%s),l)" % (L, L),
            "c(C(l,c(%s),l),l)" % L, "O(C(l,l),o(O(%s),l),O(%s))" % (L, L), "C(l,C(l,l,O(%s)),O(l,C(%s)))" % (_cycle(w, mixed9), L),
        ]
        out += fam
    # serialization budget beyond 255 bits with far fewer than 255 regions (the counts are Long)
    out.append("O(%s)" % ",".join(["C(l,l,l)"] * 52))
    # more than 255 composite prongs below an orthogonal region (the prong counts are Long; TASK_CAPACITY = 2 * prongs)
    out.append("O(%s)" % ",".join(["C(%s)" % _leaves(16)] * 16))
    # widths on both sides of every power of two up to the widest region a Short prong index can address: the number of bits
    # of the active / resumable prong fields (bitContain ladder) changes exactly there
    for w in (31, 32, 33, 63, 64, 65, 127, 128, 129, 130, 200, 254):
        out.append("C(%s)" % _leaves(w))
    return out


def big_shapes():
    c16 = "C(%s)" % _leaves(16)
    return [
        "C(%s)" % _cycle(16, [c16]),                                            # 273 states, task capacity 544
        "C(%s)" % _cycle(8, ["C(%s)" % _cycle(8, ["C(l,l)"])]),                 # 201 states, 73 regions
        "O(%s)" % _cycle(4, ["O(%s)" % _cycle(9, ["C(l,l)", "O(l,l,l,l,l,l,l,l,l)"])]),   # 225 states, 41 regions, 41 bit units
        "c(%s)" % _cycle(17, ["o(%s)" % _cycle(5, ["l", "c(l,l)"])]),           # anonymous heads everywhere
    ]


def restrategize(dsl, salt):
    """same structure, composite-style regions re-labelled with R/S/U/N (identifiers must not depend on the strategy)"""
    out = []
    k = salt
    for ch in dsl:
        if ch in "Cc":
            r = "RSUN"[k % 4]
            out.append(r if ch == "C" else r.lower())
            k += 1
        else:
            out.append(ch)
    return "".join(out)


def enumerate_shapes(tier):
    n_trees = 7 if tier == "thorough" else 5
    n_strat = 5 if tier == "thorough" else 4
    n_trees = int(os.environ.get("VERIF_C17_N", n_trees))
    shapes = []   # (dsl, group)
    seen = set()

    def add(d, g):
        if d not in seen:
            seen.add(d)
            shapes.append((d, g))

    per_size = {}
    for n in range(2, n_trees + 1):
        ts = S.all_trees(n, "CO", True, min_states=n)
        per_size[n] = len(ts)
        for t in ts:
            add(t, "trees")
    for i, t in enumerate(S.all_trees(n_strat, "CO", True)):
        add(restrategize(t, i), "strategy")
    for t in wide_shapes():
        add(t, "wide")
    if tier == "thorough":
        for t in big_shapes():
            add(t, "big")
    return shapes, per_size, n_trees, n_strat


def nontrivial(root):
    """the rule of RULE; returns the set of reasons"""
    why = set()
    for n in S.nodes(root):
        if not n.is_region:
            continue
        w = len(n.children)
        if n.headless and n.parent is not None:
            why.add("b")
        if n.is_ortho:
            if n.ortho_unit > 0:
                why.add("c")
            if w > 8:
                why.add("d")
        if n.is_compo and w >= 3 and w % 2 == 1:
            why.add("e")
        if n.is_compo and w >= 2:
            # balanced split, recursively: a region child in a right half whose left half contains a region
            def split(kids):
                if len(kids) < 2:
                    return
                h = len(kids) // 2
                left, right = kids[:h], kids[h:]
                if any(c.is_region for c in left) and any(c.is_region for c in right):
                    why.add("a")
                split(left)
                split(right)
            split(n.children)
    return why


# --------------------------------------------------------------------------------------------------
# code generation

def _desc_rows(root):
    rows = []
    for n in S.nodes(root):
        kind = 0 if not n.is_region else (2 if n.is_ortho else 1)
        rows.append("{%d,%d,%d,%d,%d,%d,%d,%d,%d,%d,%d}" % (
            n.id, n.parent.id if n.parent else -1, n.prong, kind, 1 if (n.is_region and n.headless) else 0, len(n.children),
            n.region_id, n.compo_index, n.ortho_index, n.size, n.ortho_unit))
    return rows


def _machine(root, prefix, fsm):
    """declarations of one machine with state types <prefix>0.. and machine alias <fsm>"""
    ns = S.nodes(root)
    named = [n for n in ns if not (n.is_region and n.headless)]
    texpr = S.type_expr(root, True)
    if prefix != "S":
        import re
        texpr = re.sub(r"\bS(\d+)\b", prefix + r"\1", texpr)
    out = ["struct %s%d;" % (prefix, n.id) for n in named]
    out.append("using %s = %s;" % (fsm, texpr))
    out += ["struct %s%d : %s::State {};" % (prefix, n.id, fsm) for n in named]
    return out, ns, named


def _grab(ns, prefix, fsm, tag):
    def isnamed(n):
        return not (n.is_region and n.headless)
    sid = ", ".join("(int) %s::stateId<%s%d>()" % (fsm, prefix, n.id) if isnamed(n) else "-1" for n in ns)
    rid = ", ".join("(int) %s::regionId<%s%d>()" % (fsm, prefix, n.id) if (isnamed(n) and n.is_region) else "-1" for n in ns)
    con = ", ".join("(int) %s::contains<%s%d>()" % (fsm, prefix, n.id) if isnamed(n) else "-1" for n in ns)
    # FSM::contains<>() is only evaluated when the probe found that it can be instantiated at all (see _probe_contains)
    # constexpr: the identifiers must be usable in constant expressions
    return ["\tconstexpr int sid%s[] = {%s};" % (tag, sid), "\tconstexpr int rid%s[] = {%s};" % (tag, rid),
            "#ifdef VT17_CONTAINS", "\tconstexpr int con%s[] = {%s};" % (tag, con), "#else", "\tconst int* const con%s = nullptr;" % tag, "#endif"]


def emit_shape(idx, dsl, group, peer):
    root = S.parse(dsl)
    cnt = S.counts(root)
    out = ["namespace n%d {" % idx]
    # utilitarian / random regions are never activated here (activation semantics belong to other properties; a random region over
    # a headless sub-region draws INVALID_PRONG at activation)
    out.append("using M = %s;" % ("MM" if S.uses_utility(root) else "MA"))
    decl, ns, named = _machine(root, "S", "FSM")
    out += decl
    if peer:
        declb, _, _ = _machine(root, "T", "FSMB")
        out += declb
    out.append("static const vt17::Desc D[] = {%s};" % ", ".join(_desc_rows(root)))
    out.append("static void run() {")
    out.append('\tstatic const vt17::Shape SH = {"%s", "%s", %d, D, {%d,%d,%d,%d,%d,%d,%d,%d,%d,%d,%d}};' % (
        dsl, group, idx, cnt["states"], cnt["regions"], cnt["compo"], cnt["ortho"], cnt["prongs"], cnt["units"],
        cnt["active_bits"], cnt["resumable_bits"], cnt["serial_bits"], cnt["task_capacity"], len(root.children)))
    out.append("\tvt17::Cx cx(SH);")
    out += _grab(ns, "S", "FSM", "")
    out.append("\tconst vt17::StaticDump sd = vt17::grabStatic<FSM>();")
    out.append("\tvt17::checkStatic(cx, sd, sid, rid, con);")
    # the other copies of the accessor pair (Instance, State base, ConstControl, Control = what callbacks see through their control)
    for tag, cls in (("I", "FSM::Instance"), ("B", "FSM::State"), ("CC", "FSM::ConstControl"), ("C", "FSM::Control")):
        out.append("\t{")
        out += ["\t" + l for l in _grab(ns, "S", cls, tag)[:2]]
        out.append('\tvt17::checkAccessorCopy(cx, "%s", sid, rid, sid%s, rid%s); }' % (cls[5:], tag, tag))
    if peer:
        out.append('\tvt17::Cx cxb(SH, "peer B: ");')
        out += _grab(ns, "T", "FSMB", "B")
        out.append("\tconst vt17::StaticDump sdb = vt17::grabStatic<FSMB>();")
        out.append("\tvt17::checkStatic(cxb, sdb, sidB, ridB, conB);")
        out.append("\tvt17::checkPeers(cxb, sd, sdb, sid, rid, sidB, ridB);")
    out.append("#ifndef VT17_NO_INSTANCE")

    def instance(fsm, prefix, var, cx):
        o = ["\t%s::Instance %s;" % (fsm, var), "\tvt17::RegDump rd%s;" % var, "\tvt17::grabRegistry<%s>(%s, rd%s);" % (fsm, var, var)]
        if cnt["ortho"]:
            o.append("\tvt17::grabOrtho(%s, rd%s);" % (var, var))
        o.append("\tvt17::checkRegistry(%s, rd%s);" % (cx, var))
        o.append("#ifdef HFSM2_ENABLE_STRUCTURE_REPORT")
        names = ", ".join("typeid(%s%d).name()" % (prefix, n.id) if not (n.is_region and n.headless) else "nullptr" for n in ns)
        o.append("\t{ const char* const names[] = {%s}; vt17::ReportDump rp; vt17::grabReport(%s, rp); vt17::checkReport(%s, rp, names); }" % (names, var, cx))
        o.append("#endif")
        return o

    out += instance("FSM", "S", "fa", "cx")
    if peer:
        out += instance("FSMB", "T", "fb", "cxb")
        out.append("\tvt17::checkPeerRegistries(cxb, rdfa, rdfb);")
    out.append("#endif")
    out.append("}")
    out.append("}")
    return out


def emit_tu(items, serial, report):
    """items: list of (idx, dsl, group, peer)"""
    out = ["// generated by checks/c17.py", "#define HFSM2_ENABLE_PLANS", "#define HFSM2_ENABLE_UTILITY_THEORY"]
    if serial:
        out.append("#define HFSM2_ENABLE_SERIALIZATION")
    if report:
        out.append("#define HFSM2_ENABLE_STRUCTURE_REPORT")
        out.append("#define HFSM2_ENABLE_TRANSITION_HISTORY")   # SERIALIZATION + STRUCTURE_REPORT needs it to compile
    out += ["#ifdef VT_DEV_HEADER", "#include <hfsm2/machine_dev.hpp>", "#else", "#include <hfsm2/machine.hpp>", "#endif",
            '#include "harness/common.hpp"', '#include "harness/c17_meta.hpp"',
            "using MM = hfsm2::MachineT<hfsm2::Config::ManualActivation>;",
            "#ifdef VT17_AUTO", "using MA = hfsm2::Machine;", "#else", "using MA = MM;", "#endif"]
    for idx, dsl, group, peer in items:
        out += emit_shape(idx, dsl, group, peer)
    out.append("int main() {")
    for idx, _, _, _ in items:
        out.append("\tn%d::run();" % idx)
    out.append("\treturn vt17::finish();")
    out.append("}")
    return "\n".join(out) + "\n"


# --------------------------------------------------------------------------------------------------
# variants

# FSM::contains<TState>() (RF_) calls contains<StateList, TState>(), which finds the one-parameter member itself instead of
# hfsm2::contains<TList, T>(): it cannot be instantiated. Not an identifier/count mismatch, so not a C17 violation; the probe
# records it in the evidence and, once it compiles, contains<>() of every named state is compared as well.
PROBE_CONTAINS = r'''
#ifdef VT_DEV_HEADER
#include <hfsm2/machine_dev.hpp>
#else
#include <hfsm2/machine.hpp>
#endif
#include "harness/common.hpp"
using M = hfsm2::Machine;
struct A; struct B; struct X;
using FSM = M::PeerRoot<A, B>;
struct A : FSM::State {}; struct B : FSM::State {}; struct X : FSM::State {};
int main() { return FSM::contains<A>() && !FSM::contains<X>() ? 0 : 1; }
'''


def _probe_contains():
    exes = vtlib.build_many([dict(src_text=PROBE_CONTAINS, name="c17_probe", cxx="g++", std="c++11", opt="-O0", flavour=fl, allow_fail=True)
                             for fl in ("single", "dev")])
    return {"single": exes[0] is not None, "dev": exes[1] is not None}


def variants(tier):
    """(name, build kwargs, structure report?, filter(group, states) -> bool). -O0 -s: the TUs are compile-bound and the cache
    keeps every binary (stripped: ~0.5 MB each)."""
    allf = lambda g, n: True
    gcc = dict(cxx="g++", std="c++11", opt="-O0", flags=["-s"])
    clang = dict(cxx="clang++", std="c++17", opt="-O0", flags=["-s", "-DVT17_AUTO"])     # hfsm2::Machine: activated on construction
    dev = dict(cxx="g++", std="c++14", opt="-O0", flags=["-s"], flavour="dev")           # split sources + structure report
    if tier == "thorough":
        return [
            ("gcc-c++11", gcc, False, allf),
            ("clang-c++17-auto", clang, False, lambda g, n: g != "trees" or n <= 6),
            ("gcc-dev-c++14-report", dev, True, lambda g, n: g != "trees" or n <= 6),
        ]
    return [
        ("gcc-c++11", gcc, False, allf),
        ("clang-c++17-auto", clang, False, allf),
        ("gcc-dev-c++14-report", dev, True, allf),
    ]


def pack(items):
    """split into TUs of PACK shapes / STATE_BUDGET states; big shapes get a TU each"""
    groups = {}
    for it in items:
        groups.setdefault((it["serial"], it["group"] == "big"), []).append(it)
    tus = []
    for (serial, big), lst in sorted(groups.items(), key=lambda kv: (not kv[0][0], kv[0][1])):
        if big:
            for it in lst:
                tus.append((serial, [it]))
            continue
        budget = 0
        cur = []
        for it in lst:
            cur.append(it)
            budget += it["states"]
            if len(cur) >= PACK or budget >= STATE_BUDGET:
                tus.append((serial, cur))
                cur, budget = [], 0
        if cur:
            tus.append((serial, cur))
    return tus


def _tu_text(tu, report):
    serial, lst = tu
    return emit_tu([(it["index"], it["dsl"], it["group"], it["peer"]) for it in lst], serial, report)


def _first_error(kw, text, name):
    """the compiler's error lines for a TU that failed to build (the failure is cached: this does not compile again)"""
    try:
        vtlib.build(text, name, **kw)
    except vtlib.BuildError as ex:
        lines = [l for l in str(ex).splitlines()[1:] if "error" in l]
        return "\n".join(lines[:6])[:1200] or str(ex)[-1200:]
    return "(compiled on retry)"


def _collect(chk, vname, recs, rc, err, what, stats):
    summ = [r for r in recs if r.get("type") == "summary"]
    for r in recs:
        if r.get("type") == "violation":
            rp = r.get("replay", {})
            if isinstance(rp, dict):
                rp["variant"] = vname
            chk.violation(r["fingerprint"], "[%s] %s" % (vname, r["message"]), rp)
    if rc != 0 or not summ:
        head = "\n".join(err.splitlines()[:12])
        if rc == -999:
            chk.engine_error("c17 %s [%s]: %s" % (what, vname, head))
        else:
            chk.violation("crash/run", "[%s] generated program %s exited rc=%s without summary: %s" % (vname, what, rc, head),
                          {"variant": vname, "shapes": what, "stderr": err[-2000:]})
        return False
    for s in summ:
        for k in ("shapes", "instances", "evaluations", "mismatches", "bad_shapes", "report_checked", "peers", "breaks"):
            stats[k] = stats.get(k, 0) + int(s.get(k, 0))
        for fp, n in s.get("violation_counts", {}).items():
            stats.setdefault("violation_counts", {})
            stats["violation_counts"][fp] = stats["violation_counts"].get(fp, 0) + n
        for d in s.get("bad_dsl", []):
            stats.setdefault("bad_dsl", [])
            if len(stats["bad_dsl"]) < 40 and d not in stats["bad_dsl"]:
                stats["bad_dsl"].append(d)
    return True


def run_variants(chk, plan):
    """plan: list of (vname, kw, report, items). All TUs of all variants are built (largest first) and run in one pool."""
    jobs = []   # (variant index, tu, text)
    for vi, (vname, kw, report, items) in enumerate(plan):
        for tu in pack(items):
            jobs.append((vi, tu, _tu_text(tu, report)))
    order = sorted(range(len(jobs)), key=lambda j: -sum(it["states"] for it in jobs[j][1][1]))
    t0 = time.time()
    built = vtlib.build_many([dict(src_text=jobs[j][2], name="c17", allow_fail=True, **plan[jobs[j][0]][1]) for j in order])
    exes = [None] * len(jobs)
    for j, e in zip(order, built):
        exes[j] = e
    build_s = round(time.time() - t0, 1)
    t0 = time.time()
    good = [j for j in range(len(jobs)) if exes[j]]
    results = dict(zip(good, vtlib.run_many([[exes[j]] for j in good], timeout=600)))
    run_s = round(time.time() - t0, 1)
    out = {}
    for vi, (vname, kw, report, items) in enumerate(plan):
        mine = [j for j in range(len(jobs)) if jobs[j][0] == vi]
        stats = {"tus": len(mine), "tus_failed_to_compile": 0, "single_shape_rebuilds": 0, "shapes_selected": len(items)}
        for j in mine:
            if j in results:
                tu = jobs[j][1]
                recs, rc, err = results[j]
                _collect(chk, vname, recs, rc, err, "%s..%s" % (tu[1][0]["dsl"], tu[1][-1]["dsl"]), stats)
        _failed_tus(chk, vname, kw, report, [(jobs[j][1], jobs[j][2]) for j in mine if not exes[j]], stats)
        out[vname] = stats
    return out, build_s, run_s


def _failed_tus(chk, vname, kw, report, failed, stats):
    """failed: list of (tu, text) that did not compile. Never an engine error: the identifiers and counts are still compared
    (the same code without the instance part) and the compile failure is attributed to shapes by single-shape rebuilds."""
    stats["tus_failed_to_compile"] = len(failed)
    if not failed:
        return
    kw2 = dict(kw)
    kw2["flags"] = list(kw.get("flags", [])) + ["-DVT17_NO_INSTANCE"]
    singles, rest = [], []
    for tu, t in failed:
        if len(singles) + len(tu[1]) <= BISECT_BUDGET or not singles:
            singles += [(tu[0], it) for it in tu[1]]
        else:
            rest.append((tu, t))
    stats["single_shape_rebuilds"] = len(singles)

    def run_all(pairs, label):
        for (what, e), (recs, rc, err) in zip(pairs, vtlib.run_many([[e] for _, e in pairs], timeout=600)):
            _collect(chk, vname, recs, rc, err, what + label, stats)

    # one shape per TU
    stexts = [_tu_text((serial, [it]), report) for serial, it in singles]
    sexes = vtlib.build_many([dict(src_text=t, name="c17", allow_fail=True, **kw) for t in stexts])
    run_all([(it["dsl"], e) for (_, it), e in zip(singles, sexes) if e], "")
    bad = [((serial, it), t) for (serial, it), t, e in zip(singles, stexts, sexes) if not e]
    bexes = vtlib.build_many([dict(src_text=t, name="c17", allow_fail=True, **kw2) for _, t in bad])
    run_all([(it["dsl"], e) for ((_, it), _), e in zip(bad, bexes) if e], " (no instance)")
    for ((serial, it), t), e in zip(bad, bexes):
        err = _first_error(kw, t, "c17")
        if e:
            msg = "a machine of this shape cannot be instantiated (its identifiers and counts are compared separately)"
        else:
            msg = "not even the declaration of a machine of this shape compiles"
        chk.violation("compile/instance" if e else "compile/declaration", "[%s] %s: %s: %s" % (vname, it["dsl"], msg, err),
                      {"shape": it["dsl"], "group": it["group"], "index": it["index"], "variant": vname, "compiler_error": err})

    # TUs beyond the bisect budget: value-level comparison without instances + one violation per TU
    exes2 = vtlib.build_many([dict(src_text=t, name="c17", allow_fail=True, **kw2) for _, t in rest])
    run_all([("%s..%s" % (tu[1][0]["dsl"], tu[1][-1]["dsl"]), e) for (tu, _), e in zip(rest, exes2) if e], " (no instance)")
    for (tu, t), e in zip(rest, exes2):
        err = _first_error(kw, t, "c17")
        chk.violation("compile/instance" if e else "compile/declaration",
                      "[%s] a translation unit with %d shapes (%s .. %s) does not compile; not bisected (budget of %d single-shape "
                      "rebuilds used): %s" % (vname, len(tu[1]), tu[1][0]["dsl"], tu[1][-1]["dsl"], BISECT_BUDGET, err),
                      {"shapes": [it["dsl"] for it in tu[1]], "variant": vname, "compiler_error": err})

# --------------------------------------------------------------------------------------------------

def build_items(tier):
    shapes, per_size, n_trees, n_strat = enumerate_shapes(tier)
    items = []
    for idx, (dsl, group) in enumerate(shapes):
        root = S.parse(dsl)
        why = nontrivial(root)
        peer = group in ("wide",) and idx % 3 == 0 or group in ("trees", "strategy") and idx % 8 == 0
        # serial: build with HFSM2_ENABLE_SERIALIZATION. A width-1 composite region only fails to compile when save()/load()
        # are instantiated (write<0>); the constants are published regardless, so every shape is built with it.
        items.append(dict(index=idx, dsl=dsl, group=group, states=len(S.nodes(root)), serial=True, width1=not S.serializable(root),
                          peer=bool(peer), why="".join(sorted(why))))
    return items, per_size, n_trees, n_strat


def run(tier):
    chk = vtlib.Check("C17", tier, "exploration")
    items, per_size, n_trees, n_strat = build_items(tier)
    probe = _probe_contains()
    plan = []
    for vname, kw, report, flt in variants(tier):
        if probe[kw.get("flavour", "single")]:
            kw = dict(kw, flags=list(kw.get("flags", [])) + ["-DVT17_CONTAINS"])
        plan.append((vname, kw, report, [it for it in items if flt(it["group"], it["states"])]))
    per_variant, build_s, run_s = run_variants(chk, plan)
    total_eval = sum(st.get("evaluations", 0) for st in per_variant.values())
    for vname, st in per_variant.items():
        vtlib.log("C17 %s: %d shapes in %d TUs, %d evaluations, %d TU(s) failed to compile" % (
            vname, st["shapes_selected"], st["tus"], st.get("evaluations", 0), st["tus_failed_to_compile"]))
    vtlib.log("C17 build %.0fs, run %.0fs" % (build_s, run_s))
    # report the smallest offending shape of every fingerprint (finish() keeps the first violation per fingerprint)
    chk.violations.sort(key=lambda v: len(v["replay"].get("shape", "")) or 10 ** 6)
    nontriv = [it for it in items if it["why"]]
    by_reason = {}
    for it in nontriv:
        for c in it["why"]:
            by_reason[c] = by_reason.get(c, 0) + 1
    by_group = {}
    for it in items:
        by_group[it["group"]] = by_group.get(it["group"], 0) + 1
    samples = []
    for g in ("trees", "strategy", "wide", "big"):
        samples += [{"shape": it["dsl"], "group": g, "nontrivial": it["why"], "counts": S.counts(S.parse(it["dsl"]))}
                    for it in [x for x in nontriv if x["group"] == g][:: max(1, len([x for x in nontriv if x["group"] == g]) // 3)][:3]]
    complete = all(st["tus_failed_to_compile"] == 0 for st in per_variant.values()) and not chk.engine_errors
    chk.coverage = {
        "evaluations": total_eval,
        "distinct_nontrivial": len(nontriv),
        "rule": RULE,
        "samples": samples,
        "exhaustive": bool(complete),
        "distinct_shapes": len(items),
        "shapes_by_group": by_group,
        "tree_shapes_per_state_count": per_size,
        "nontrivial_by_reason": by_reason,
        "peer_pairs": sum(1 for it in items if it["peer"]),
        "shapes_with_width1_composite": sum(1 for it in items if it["width1"]),
        "shapes_per_translation_unit": PACK,
        "bounds": "all ordered trees with <= %d states, kinds {C,O} x {headed,headless}, root a region, >= 1 composite-style region; "
                  "strategy relabelling (R/S/U/N) of all trees with <= %d states; widths 1..17 x 25 wide patterns at depth 0..2" % (n_trees, n_strat),
        "contains_instantiable": probe,
        "variant_scope": {vname: "trees with <= %d states (%d) + %d shapes of the other families" % (
            max([it["states"] for it in its if it["group"] == "trees"] or [0]), sum(1 for it in its if it["group"] == "trees"),
            sum(1 for it in its if it["group"] != "trees")) for vname, _, _, its in plan},
        "per_variant": per_variant,
        "build_wall_s": build_s,
        "run_wall_s": run_s,
        "explanation": "exhaustive = every generated TU of every variant compiled, ran and printed its summary; it is exhaustive over the stated "
                       "bounds, not over all machine structures. evaluations = individual expected/actual comparisons summed over the "
                       "variants (every variant re-checks its subset); distinct_nontrivial counts shapes once.",
    }
    chk.assumptions = [
        "the expected numbers come from gen/structures.py (number(), counts()): depth-first pre-order ids, region ids in the same order, "
        "compo/ortho indices per kind, unit offset = sum of contain(width, 8) of the orthogonal regions declared before",
        "serial bits: 1 + active + resumable; active(composite) = bitContain(width) + max over children, active(orthogonal) = sum over children; "
        "resumable = sum over composite regions of bitContain(width) + 1; default task capacity = 2 x total composite prongs",
        "every TU is built with HFSM2_ENABLE_PLANS, HFSM2_ENABLE_SERIALIZATION and HFSM2_ENABLE_UTILITY_THEORY; save()/load() are never "
        "instantiated (a width-1 composite region would not compile there), SERIAL_BITS of such shapes is compared as published (bitContain(1) = 0)",
        "states are empty structs deriving from FSM::State; context-free configs (Machine, and MachineT<Config::ManualActivation>); "
        "the registry is read through -fno-access-control; custom TASK_CAPACITY (Config::TaskCapacityN) is not varied here",
        "registry.orthoUnits is compared at index ORTHO_INDEX (the slot deepRegister writes)",
        "machines above the identifier type limits (more than 255 regions etc.) are out of scope",
        "FSM::contains<TState>() is %s" % ("compared for every named state" if all(probe.values()) else
                                           "NOT compared: it cannot be instantiated (the member template hides hfsm2::contains<TList, T>())"),
    ]
    return chk


def replay(path):
    rec = json.load(open(path))
    rp = rec.get("replay", {})
    dsl = rp.get("shape") or (rp.get("shapes") or [None])[0]
    if not dsl:
        vtlib.log("C17 replay: no shape recorded in %s" % path)
        return 2
    vname = rp.get("variant", "gcc-c++11")
    var = [v for v in variants("thorough") if v[0] == vname] or variants("thorough")[:1]
    _, kw, report, _ = var[0]
    chk = vtlib.Check("C17", "replay", "exploration")
    root = S.parse(dsl)
    it = dict(index=rp.get("index", 0), dsl=dsl, group=rp.get("group", "replay"), states=len(S.nodes(root)),
              serial=True, width1=not S.serializable(root), peer=True, why="")
    st = run_variants(chk, [(vname, kw, report, [it])])[0][vname]
    hit = [v for v in chk.violations if v["fingerprint"] == rec.get("fingerprint")] or chk.violations
    for e in chk.engine_errors:
        vtlib.log("ENGINE ERROR: " + e)
    if chk.engine_errors:
        return 2
    if hit:
        print("VIOLATION property=C17 replay=%s" % path)
        for v in hit[:10]:
            vtlib.log("  %s: %s" % (v["fingerprint"], v["message"]))
        return 1
    vtlib.log("C17 replay: %s [%s] agrees with the declaration (%d comparisons)" % (dsl, vname, st.get("evaluations", 0)))
    return 0
