"""C20: bundled generators are seed-determined, match splitmix / xoshiro (+ and **, incl. jump()), stay in [0,1).

harness/c20_random.cpp instantiates the 64-bit *and* the 32-bit variants of the real generators and compares them,
seed by seed and output by output, with an independent transcription of the published reference code.
This file builds it with g++ and clang++ (-O2, threads), once more under ASan+UBSan with library assertions on a
reduced range, runs one binary twice, and compares the output digests: same seeds => same outputs in every run and
under every compiler.
"""
import json
import os

import vtlib
from checks.component import run_component

SRC = "c20_random.cpp"
NAME = "c20_random"
PT = ["-pthread"]

GCC = dict(cxx="g++", std="c++17", opt="-O2", flags=PT)
VARIANTS = [
    ("gcc-O2", GCC),
    ("gcc-O2-rerun", GCC),  # the same cached binary, a second process: run-to-run determinism
    ("clang-O2-c++11", dict(cxx="clang++", std="c++11", opt="-O2", flags=PT)),
    ("gcc-dev-c++11", dict(cxx="g++", std="c++11", opt="-O2", flavour="dev", flags=PT)),
    # sanitizers + library assertions; -DVT_REDUCED shrinks the ranges, so these two form their own digest group
    ("clang-asan-assert", dict(cxx="clang++", std="c++14", opt="-O1", san=True, flags=PT + ["-DVT_ASSERT", "-DVT_REDUCED"])),
    ("gcc-O1-reduced", dict(cxx="g++", std="c++14", opt="-O1", flags=PT + ["-DVT_REDUCED"])),
]
VARIANTS_THOROUGH = VARIANTS + [
    ("clang-O3-c++17", dict(cxx="clang++", std="c++17", opt="-O3", flags=PT)),
    ("gcc-asan-assert", dict(cxx="g++", std="c++14", opt="-O1", san=True, flags=PT + ["-DVT_ASSERT", "-DVT_REDUCED"])),
]

RULE = ("Cases are enumerated, not sampled. (1) 32-bit variants, short form: seeds 0..2^22 (thorough: all 2^32) plus 2^k, 2^k+-1, ~0 and "
        "the seeds -k*golden whose k-th sequencer output is zero: 4 raw + 4 zero-rejecting sequencer outputs, the seeded state and the "
        "first 4 outputs of xoshiro128+ and xoshiro128** against the reference, 4 float calls in [0,1). (2) long form, 32-bit seeds "
        "0..2^16 (thorough 2^20) and 64-bit seeds 0..2^18 (thorough 2^22), each plus the same special seeds: first 64 (thorough 256) "
        "outputs with jump() after 1/4, 1/2 and 3/4 of them, state compared after every jump. (3) uniform(uint32_t) on all 2^32 "
        "arguments; uniform(uint64_t) on 2^24 spread (thorough: all 2^32) high words + 2^k, 2^k+-1, ~0, each with low word 0 and ~0. "
        "The sanitizer builds run the same scheme on ranges 4..64 times smaller. evaluations = individual comparisons with the "
        "reference / range checks, summed over all processes. distinct_nontrivial is measured inside one process with std::set and "
        "counts the boundary cases only: (a) distinct (width, seed) whose seeding loop really had to reject a zero sequencer output "
        "(the reference says so AND the library's sequencer state advanced by 4+r steps) plus (b) distinct mantissa fields m of "
        "uniform() arguments at a binade edge (m = 0, 2^k or 2^k-1, i.e. results 0, 2^-j, 1-2^-j and the largest value below 1). "
        "It is the same set in every build variant and is not summed over variants.")


def _specs(variants):
    src = open(os.path.join(vtlib.VERIF, "harness", SRC)).read()
    seen, out = set(), []
    for _, kw in variants:
        key = json.dumps(kw, sort_keys=True)
        if key not in seen:
            seen.add(key)
            out.append(dict(src_text=src, name=NAME, **kw))
    return out


def _variants(tier):
    return VARIANTS_THOROUGH if tier == "thorough" else VARIANTS


def _compiler(vname):
    return "clang" if vname.startswith("clang") else "gcc"


def run(tier):
    chk = vtlib.Check("C20", tier, "exploration")
    variants = _variants(tier)
    # build each distinct configuration once, so that the duplicate ("rerun") entry finds the cached binary
    vtlib.build_many(_specs(variants))
    totals, samples, per_variant, extra = run_component(
        chk, SRC, tier, variants=variants, timeout=3000, sum_keys=("evaluations",))

    # the trusted base must reproduce the published test vectors before anything it says counts
    for v, s in per_variant.items():
        if s.get("selfcheck_failed"):
            chk.engine_error("c20_random[%s]: reference transcription failed its own known-answer tests: %s" % (v, s.get("selfcheck")))

    # ---- determinism: identical digests within a range group (full / reduced)
    groups = {}
    for v, s in per_variant.items():
        groups.setdefault(s.get("range", "?"), []).append(v)
    digests = {}
    wide_reported = False
    for rng, vs in sorted(groups.items()):
        vs = [v for v, _ in variants if v in vs]  # stable order
        base = vs[0]
        digests[rng] = {v: per_variant[v].get("digest") for v in vs}
        for v in vs[1:]:
            a, b = per_variant[base], per_variant[v]
            if a.get("evaluations") != b.get("evaluations") or a.get("distinct_nontrivial") != b.get("distinct_nontrivial"):
                if not (a.get("violations") or b.get("violations")):
                    chk.engine_error("c20_random: %s and %s explored different case sets (%s vs %s evaluations)"
                                     % (base, v, a.get("evaluations"), b.get("evaluations")))
            if a.get("digest") != b.get("digest"):
                sa, sb = a.get("digest_sections", {}), b.get("digest_sections", {})
                diff = sorted(k for k in sa if sa.get(k) != sb.get(k))
                same_binary = v == base + "-rerun"
                fp = "determinism/rerun" if same_binary else "determinism/cross-compiler"
                chk.violation(fp, "same seeds, different outputs: digest %s [%s] vs %s [%s]; differing sections %s "
                              "(a32/b32: 32-bit generators, b64: 64-bit generators, u32/u64: uniform())"
                              % (a.get("digest"), base, b.get("digest"), v, diff),
                              {"harness": NAME, "case": "digest", "tier": tier, "variants": [base, v],
                               "digests": {base: a.get("digest"), v: b.get("digest")}, "sections": {base: sa, v: sb}})
            if a.get("digest_wide32") != b.get("digest_wide32") and not wide_reported:
                wide_reported = True
                oa, ob = a.get("wide32_order"), b.get("wide32_order")
                if oa != ob:
                    chk.violation("wide32/evaluation-order",
                                  "uint64()/float64() of the 32-bit generators (detail::FloatRandomT<4>, detail::IntRandomT<4>) are not "
                                  "determined by the seed: they are built as widen(uint32(), uint32()) and the order of the two draws is "
                                  "unspecified in C++; build [%s] is %s, build [%s] is %s. State {1,2,3,4}: IntRandomT<4>::uint64() = %s vs %s. "
                                  "(next()/float32()/uint32(), which the machine uses, are unaffected)"
                                  % (base, oa, v, ob, a.get("wide32_sample"), b.get("wide32_sample")),
                                  {"harness": NAME, "case": "wide32", "tier": tier, "state": [1, 2, 3, 4],
                                   "per_variant": {x: {"order": per_variant[x].get("wide32_order"), "uint64": per_variant[x].get("wide32_sample"),
                                                       "digest_wide32": per_variant[x].get("digest_wide32")} for x in vs}})
                else:
                    chk.violation("determinism/cross-compiler-wide32",
                                  "uint64()/float64() of the 32-bit generators differ between [%s] and [%s] (%s vs %s) although both take the draws in the same order"
                                  % (base, v, a.get("digest_wide32"), b.get("digest_wide32")),
                                  {"harness": NAME, "case": "wide32", "tier": tier, "variants": [base, v]})

    prim = per_variant.get("gcc-O2") or next(iter(per_variant.values()), {})
    full = [v for v in per_variant if per_variant[v].get("range") == "full"]
    chk.coverage = {
        "evaluations": totals["evaluations"],
        "distinct_nontrivial": int(prim.get("distinct_nontrivial", 0)),
        "rule": RULE,
        "samples": samples,
        # the property quantifies over every 64-bit seed and every stream position: never enumerated completely
        "exhaustive": False,
        "exhaustive_subspaces": (["uniform(uint32_t): all 2^32 arguments"] +
                                 (["32-bit variants: all 2^32 seeds x (4 sequencer outputs, seeded state, first 4 outputs of xoshiro128+ and **, 4 float calls)",
                                   "uniform(uint64_t): all 2^32 high words x low word {0, ~0}"] if tier == "thorough" else [])),
        "one_full_process": {k: prim.get(k) for k in (
            "evaluations", "seeds32", "seeds32_long", "seeds64", "outputs_per_long_seed", "outputs_compared", "jumps_compared",
            "floats_checked", "uniform32_args", "uniform64_args", "reject_seeds32", "reject_seeds64", "uniform32_edges",
            "uniform64_edges", "threads")},
        "processes": len(per_variant),
        "full_range_variants": full,
        "digests": digests,
        "wide32_order": {v: per_variant[v].get("wide32_order") for v in per_variant},
        "per_variant": per_variant,
        "explanation": "Real detail::SimpleRandomT/FloatRandomT/IntRandomT<8> and <4> and detail::uniform() against a transcription of "
                       "splitmix64.c, splitmix32 (golden-ratio Weyl sequence + MurmurHash3 fmix32), xoshiro256plus.c, xoshiro256starstar.c, "
                       "xoshiro128plus.c, xoshiro128starstar.c; the transcription is first checked against the published test vectors and its "
                       "jump() against the 2^128 / 2^64-th power of the GF(2) transition matrix. Digests of all library outputs are compared "
                       "between two runs of one binary and between g++ / clang++ builds.",
    }
    chk.assumptions = [
        "trusted base: the ~80-line transcription of the published algorithms in harness/c20_random.cpp (namespace ref); it must pass the published "
        "known answers (splitmix64(0), fmix32(1), ten outputs each of xoshiro256+/**, xoshiro128+/** from state {1,2,3,4}) and jump() == T^(2^(bits/2)) before any comparison",
        "the library documents that the four state words are successive NON-ZERO sequencer outputs; the reference seeding is the published splitmix stream with zeros removed",
        "64-bit variants: only seeds 0..2^18 (thorough 2^22), 2^k, 2^k+-1, ~0, -k*golden and the first 64 (256) outputs with 3 jumps are compared; other seeds/positions rest on the step function being state-independent code",
        "uniform(uint64_t): low word only 0 and ~0 (the result is monotone in the argument between these endpoints)",
        "floats returned by float32()/float64()/next() are only checked to lie in [0,1) and to be reproducible (digest); which bits of the integer output they use is not promised by the property",
        "uint64()/float64() of the 32-bit variants are kept in a separate digest (digest_wide32) so that their compiler dependence does not mask the main digest",
        "same pointer width only: one x86-64 host, g++ 12 and clang++ 14, -O1/-O2/-O3, C++11/14/17; no big-endian or non-IEEE platform",
        "seed() on an existing generator is not checked: BaseRandomT is a private base of FloatRandomT/IntRandomT, so it cannot be called by users",
    ]
    return chk


def replay(path):
    rec = json.load(open(path))
    rp = rec.get("replay", {})
    case = rp.get("case")
    if case in ("seed32", "seed64", "uniform32", "uniform64"):
        val = rp.get("seed") or rp.get("arg")
        kw = dict(VARIANTS_THOROUGH).get(rp.get("variant"), GCC)
        src = open(os.path.join(vtlib.VERIF, "harness", SRC)).read()
        exe = vtlib.build(src_text=src, name=NAME, **kw)
        recs, rc, err = vtlib.run_json([exe, "replay", case, str(val)], timeout=600)
        hits = [r for r in recs if r.get("type") == "violation"]
        for r in hits:
            print("REPRODUCED %s: %s" % (r["fingerprint"], r["message"]))
        if rc != 0:
            print("harness exited rc=%s\n%s" % (rc, err[-2000:]))
        if not hits and rc == 0:
            print("not reproduced: %s %s holds on this tree" % (case, val))
        return 1 if hits or rc != 0 else 0
    # cross-variant fingerprints (digests, evaluation order): run the recorded tier again
    chk = run(rp.get("tier", "quick"))
    hits = [v for v in chk.violations if v["fingerprint"] == rec.get("fingerprint")]
    for v in hits[:1]:
        print("REPRODUCED %s: %s" % (v["fingerprint"], v["message"]))
    if not hits:
        print("not reproduced: %s" % rec.get("fingerprint"))
    return 1 if hits else 0
