"""Driver for the engine-based checks: emits the generated programs, builds them (content-addressed cache keyed by
the repository's current working tree), runs the explorer binaries in parallel and aggregates their JSON."""
import json
import os
import time

import vtlib
from gen import structures as st

ALL_FEATURES = ["HFSM2_ENABLE_UTILITY_THEORY", "HFSM2_ENABLE_PLANS", "HFSM2_ENABLE_SERIALIZATION",
                "HFSM2_ENABLE_TRANSITION_HISTORY", "HFSM2_ENABLE_STRUCTURE_REPORT", "HFSM2_ENABLE_LOG_INTERFACE"]

# per-program exploration deadline of the thorough tier (seconds); a program that hits it is reported with deadline_hit / exhaustive:false
TD = int(os.environ.get("VERIF_THOROUGH_DEADLINE", "900"))

CLS = dict(REQ=1, GUARD=2, CONSUME=4, STATUS=8, PLANEDIT=16, PLANRESULT=32, SELECT=64, UTIL=128, RNG=256, QUERY=512,
           RANK=1024)


def cls(*names):
    v = 0
    for n in names:
        v |= CLS[n]
    return v


class Prog:
    """one generated program + configuration + how to run it"""

    def __init__(self, name, dsl, features=None, manual=False, bottom_up=False, payload="void", sublimit=None,
                 taskcap=None, scripted_rng=True, cxx="g++", std="c++17", opt="-O1", san=False, asserts=False,
                 flavour="single", args=None, verbose_log=False, extra_flags=None):
        self.name = name
        self.dsl = dsl
        self.root = st.parse(dsl)
        feats = list(ALL_FEATURES if features is None else features)
        if verbose_log:
            feats = [f for f in feats if f != "HFSM2_ENABLE_LOG_INTERFACE"] + ["HFSM2_ENABLE_VERBOSE_DEBUG_LOG"]
        if not st.serializable(self.root) and "HFSM2_ENABLE_SERIALIZATION" in feats:
            feats.remove("HFSM2_ENABLE_SERIALIZATION")
        if st.uses_utility(self.root) and "HFSM2_ENABLE_UTILITY_THEORY" not in feats:
            feats.append("HFSM2_ENABLE_UTILITY_THEORY")
        self.features = feats
        self.cfg = dict(features=feats, manual=manual, bottom_up=bottom_up, payload=payload, sublimit=sublimit,
                        taskcap=taskcap, scripted_rng=scripted_rng)
        self.build_kw = dict(cxx=cxx, std=std, opt=opt, san=san, flavour=flavour,
                             flags=(["-DVT_ASSERT"] if asserts else []) + list(extra_flags or []))
        self.args = list(args or [])
        self.exe = None
        self.label = "%s%s%s%s%s%s" % (name, "/verbose" if verbose_log else "", "/manual" if manual else "", "/bottomup" if bottom_up else "",
                                     "/" + payload if payload != "void" else "",
                                     "/%s%s%s" % (cxx, "-san" if san else "", "-assert" if asserts else ""))

    def source(self):
        return st.emit_program(self.root, self.name, self.cfg)

    def spec(self):
        return dict(src_text=self.source(), name=self.name.replace("/", "_"), allow_fail=True, **self.build_kw)


def build_all(progs):
    exes = vtlib.build_many([p.spec() for p in progs])
    for p, e in zip(progs, exes):
        p.exe = e
    return [p for p in progs if p.exe], [p for p in progs if not p.exe]


def run_all(chk, prop_ids, progs, common_args, timeout=None, jobs=None):
    """returns list of (prog, summary, violations, engine_errors)"""
    ok, failed = build_all(progs)
    for p in failed:
        chk.engine_error("program %s did not compile" % p.label)
    for p in ok:
        p.full_args = ["--prop", prop_ids] + common_args + p.args
    cmds = [[p.exe] + p.full_args for p in ok]
    t0 = time.time()
    results = vtlib.run_many(cmds, jobs=jobs, timeout=timeout)
    out = []
    for p, (recs, rc, err) in zip(ok, results):
        summ = [r for r in recs if r.get("type") == "summary"]
        viol = [r for r in recs if r.get("type") == "violation"]
        eng = [r for r in recs if r.get("type") == "engine_error"]
        for e in eng:
            chk.engine_error("%s: %s (history %s)" % (p.label, e.get("message"), e.get("enc")))
        if rc != 0 or not summ:
            head = "\n".join((err or "").splitlines()[:25])
            if rc == -999:
                chk.engine_error("%s: timeout" % p.label)
            else:
                # crash / sanitizer report: a finding attributed to C11 by the caller; keep the evidence
                out.append((p, None, viol, head))
                continue
        out.append((p, summ[0] if summ else None, viol, None))
    return out


_ASSERT_CACHE = {}


def stable_assert_fingerprint(fp, message):
    """assert/<file>:<line> -> assert/<enclosing function>/<text of the asserting line> (stable when lines shift)"""
    import re
    m = re.search(r"library assertion (\S+):(\d+)", message)
    if not fp.startswith("assert/") or not m:
        return fp
    path, line = m.group(1), int(m.group(2))
    key = (path, line)
    if key not in _ASSERT_CACHE:
        label = fp
        try:
            lines = open(path, encoding="utf-8-sig", errors="replace").read().split("\n")
            text = " ".join(lines[line - 1].split())
            func = "?"
            for i in range(line - 1, max(0, line - 400), -1):
                mm = re.match(r"^[A-Za-z_][^;{}]*?::~?(\w+)\s*\(", lines[i])
                if mm:
                    func = mm.group(1)
                    break
            label = "assert/%s/%s" % (func, text[:90].replace(" ", ""))
        except OSError:
            pass
        _ASSERT_CACHE[key] = label
    return _ASSERT_CACHE[key]


def aggregate(chk, results, prop, level="model_checking", crash_prop=None):
    states = transitions = compared = 0
    per_prog = {}
    samples = []
    fix_all = True
    counters = {}
    for p, summ, viol, crash in results:
        for v in viol:
            if v.get("property") != prop and v.get("property") != "C17":
                # monitors of other properties enabled in the same run are ignored here
                continue
            rp = v.get("replay", {})
            rp["label"] = p.label
            rp["cfg"] = {k: v2 for k, v2 in p.cfg.items()}
            rp["build"] = {k: v2 for k, v2 in p.build_kw.items()}
            rp["args"] = getattr(p, "full_args", [])
            rp["name"] = p.name
            chk.violation(stable_assert_fingerprint(v["fingerprint"], v["message"]), "[%s] %s" % (p.label, v["message"]), rp)
        if crash is not None:
            chk.violation("crash/%s" % p.name, "[%s] explorer crashed or was stopped by a sanitizer: %s" % (p.label, crash[:1500]),
                          {"label": p.label, "stderr": crash})
            continue
        if not summ:
            continue
        states += summ["states"]
        transitions += summ["transitions"]
        compared += summ["compared"]
        fix_all = fix_all and summ["fixpoint"]
        per_prog[p.label] = {k: summ[k] for k in ("states", "transitions", "compared", "distinct_keys", "distinct_traces",
                                                   "max_depth", "dev", "batch", "fixpoint", "capped", "deadline_hit", "wall")}
        per_prog[p.label]["dsl"] = summ["dsl"]
        for k, v in summ.get("counters", {}).items():
            counters[k] = counters.get(k, 0) + v
        if len(samples) < 5 and summ.get("samples"):
            s = summ["samples"][-1]
            s["program"] = p.label
            samples.append(s)
    chk.coverage.update({
        "states": states, "transitions": transitions, "traces_validated_against_impl": compared,
        "samples": samples or [{"note": "no sample recorded"}], "exhaustive": fix_all,
        "programs_explored": len(per_prog), "per_program": per_prog, "counters": counters,
    })
    return per_prog


# --------------------------------------------------------------------------------------------------
# program sets

def curated(names=None, **kw):
    out = []
    for n, d in st.CURATED.items():
        if names and n not in names:
            continue
        out.append(Prog(n, d, **kw))
    return out


def replay(path):
    """python3 vt.py <id> --replay <file>: rebuild the recorded program/configuration from the current tree and re-run exactly
    the recorded history (twice, must be deterministic); prints the callback trace; exit 1 if the violation reproduces."""
    import json as _json
    import subprocess
    rec = _json.load(open(path))
    rp = rec["replay"]
    if "dsl" not in rp or "enc" not in rp:
        print("this replay file does not describe an engine history:", _json.dumps(rp)[:400])
        return 2
    cfg = rp.get("cfg", {})
    bk = rp.get("build", {})
    flags = bk.get("flags", [])
    p = Prog(rp.get("name", rp.get("program", "replay")), rp["dsl"], features=cfg.get("features"), manual=cfg.get("manual", False),
             bottom_up=cfg.get("bottom_up", False), payload=cfg.get("payload", "void"), sublimit=cfg.get("sublimit"),
             taskcap=cfg.get("taskcap"), scripted_rng=cfg.get("scripted_rng", True), cxx=bk.get("cxx", "g++"), std=bk.get("std", "c++17"),
             opt=bk.get("opt", "-O1"), san=bk.get("san", False), asserts="-DVT_ASSERT" in flags, flavour=bk.get("flavour", "single"),
             extra_flags=[f for f in flags if f != "-DVT_ASSERT"])
    ok, failed = build_all([p])
    if failed:
        print("program does not compile on this tree")
        return 2
    args = [a for a in rp.get("args", ["--prop", rec["property"]])]
    # drop exploration-only options that take a value and are meaningless for a replay
    out = subprocess.run([p.exe] + args + ["--replay", rp["enc"]], capture_output=True, text=True)
    print("property   :", rec["property"], " fingerprint:", rec["fingerprint"])
    print("recorded   :", rec["message"][:400])
    print(out.stdout[-6000:])
    reproduced = out.returncode == 1 and rec["fingerprint"].split("/")[0] in out.stdout + rec["fingerprint"]
    print("REPRODUCED" if out.returncode == 1 else "not reproduced on this tree")
    return 1 if out.returncode == 1 else 0


def systematic(max_states=4, **kw):
    """the systematic family: ALL ordered trees with <= max_states states over every region kind (headed) and over
    composite / resumable / orthogonal (headed and headless)"""
    seen = set()
    out = []
    for dsl in st.all_trees(max_states, "CRSUNO", headless=False) + st.all_trees(max_states, "CRO", headless=True):
        if dsl in seen:
            continue
        seen.add(dsl)
        out.append(Prog("sys%d_%03d" % (max_states, len(out)), dsl, **kw))
    return out


def spines(**kw):
    """the spine family: every chain of region kinds of depth 3 (all six kinds, nested region as the last and as the first
    sub-state) and of depth 4 over composite / resumable / orthogonal - the shapes the <= 4-state trees cannot reach
    (a destination region two or more levels below an active region of another kind)"""
    import itertools
    out = []
    for ks in itertools.product("CRSUNO", repeat=3):
        out.append("%s(l,%s(l,%s(l,l)))" % ks)
        out.append("%s(%s(%s(l,l),l),l)" % ks)
    for ks in itertools.product("COR", repeat=4):
        out.append("%s(%s(%s(l,%s(l,l)),l),l)" % ks)
    # a machine needs at least one composite region (static_assert of the library)
    out = [d for d in out if any(ch in d for ch in "CRSUN")]
    return [Prog("spine_%03d" % i, d, **kw) for i, d in enumerate(out)]
