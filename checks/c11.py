import vtlib
from checks import engine as en

NOSERIAL = [f for f in en.ALL_FEATURES if f != "HFSM2_ENABLE_SERIALIZATION"]


def run(tier):
    chk = vtlib.Check("C11", tier, "exploration")
    thorough = tier == "thorough"
    san = dict(cxx="clang++", std="c++14", san="recover", asserts=True)
    names = ["flat3", "deep3", "orthoroot", "plannest", "headless", "width1", "ortho8last"] + (["stratutil", "nestedortho", "ortho89", "mixed14", "wide5", "nestutil", "plans2", "inject"] if thorough else [])
    progs = en.curated(names=names, **san)
    progs += en.curated(names=["deep3", "orthoroot"] + (["headless"] if thorough else []), manual=True, features=NOSERIAL, **san)
    progs += en.curated(names=["deep3"] + (["plannest"] if thorough else []), payload="over", **san)
    progs += en.curated(names=["randroot"] + (["stratutil"] if thorough else []), scripted_rng=False, **san)
    progs += en.curated(names=["deep3", "orthoroot"], cxx="g++", std="c++17", san="recover", asserts=True, flavour="dev")
    for p in progs:
        p.label += "/capacity"
    # the same sanitizer + assertion build also re-runs the ordinary exploration with every monitor switched on
    deep = en.curated(names=["flat3", "orthoroot"] + (["deep3", "nestedortho", "stratutil", "headless", "plannest"] if thorough else []), **san)
    for p in deep:
        p.args = ["--dev", "1", "--batch", "2", "--classes", str(en.cls("REQ", "GUARD", "CONSUME", "SELECT", "RNG", "UTIL", "RANK")), "--dev-immediate", "1", "--imm-reduced", "1"]
        p.label += "/deviations"
    plan = en.curated(names=["planortho"] + (["plannest"] if thorough else []), **san)
    for p in plan:
        p.args = ["--mode", "plans", "--dev", "2", "--batch", "1", "--classes", str(en.cls("STATUS", "PLANRESULT"))]
        p.label += "/plans"
    # allocation-counting build (no sanitizer: malloc/calloc/realloc wrapped at link time, operator new replaced)
    alloc = en.curated(names=["flat3", "deep3", "orthoroot", "plannest", "stratutil"] + (["mixed14", "headless", "ortho89"] if thorough else []),
                       extra_flags=["-DVT_COUNT_ALLOCS", "-Wl,--wrap=malloc,--wrap=calloc,--wrap=realloc"])
    alloc += en.curated(names=["randroot"], scripted_rng=False, extra_flags=["-DVT_COUNT_ALLOCS", "-Wl,--wrap=malloc,--wrap=calloc,--wrap=realloc"])
    for p in alloc:
        p.args = ["--dev", "1", "--batch", "2", "--classes", str(en.cls("REQ", "GUARD", "CONSUME", "SELECT"))]
        p.label += "/alloc-count"
    args = ["--tier", tier, "--dev", "0", "--batch", "1", "--deadline", str(en.TD if thorough else 80)]
    props = "C01,C02,C03,C04,C05,C06,C08,C09,C10,C13,C14,C16,C11"
    res = en.run_all(chk, props, progs + deep + plan + alloc, args, timeout=(en.TD + 900 if thorough else 420))
    # C11 owns sanitizer reports, assertion trips, crashes and the capacity oracles; other monitors' verdicts belong to their own checks
    per = en.aggregate(chk, res, "C11")
    stderr_heads = []
    for p, summ, viol, crash in res:
        if crash:
            stderr_heads.append({"program": p.label, "stderr_head": crash[:600]})
    info = vtlib.run_json([res[0][0].exe, "--info"])[0] if res else []
    c = chk.coverage
    counters = c.get("counters", {})
    chk.coverage = {
        "evaluations": c["transitions"],
        "distinct_nontrivial": int(counters.get("c11_overfull_bursts", 0) + counters.get("c11_plan_floods", 0)),
        "rule": "one evaluation = one execution of the exploration re-run under ASan+UBSan (recover mode, reports counted through __asan_on_error/__ubsan_on_report) "
                "with the library's assertions routed to the verification hook; distinct_nontrivial = executions of the dedicated capacity alphabet that actually exceeded a "
                "capacity (request bursts of cap+1, cap+2, 2*cap from every reachable state; task floods beyond TASK_CAPACITY); additionally flood updates (every active state requests), "
                "schedule(root), replayTransitions with cap, cap+1, 4*cap entries, over-aligned payloads, built-in generator, manual activation, split headers",
        "samples": c.get("samples", []),
        "exhaustive": c.get("exhaustive", False),
        "states": c["states"], "per_program": per, "counters": counters,
        "sanitizer_build": "clang++ -O1 -fsanitize=address,undefined -fsanitize-recover=address,undefined + HFSM2_ENABLE_ASSERT via HFSM2_VERIF hook",
        "instance_info": info, "crash_heads": stderr_heads,
        "allocation": {"api_calls_executed_under_allocation_counting": counters.get("c11_api_calls_with_allocation_counting", 0),
                       "interposer_selftests_ok": counters.get("c11_alloc_selftest_ok", 0), "programs": len(alloc),
                       "method": "malloc/calloc/realloc wrapped with -Wl,--wrap and global operator new replaced; counted only while a library API call is on the stack and not inside the harness's own callbacks"},
    }
    chk.assumptions = [
        "documented preconditions respected (valid ids, select() below width, positive top-rank sums, generator in [0,1), no veto of the first activation, calls on an activated instance)",
        "ASan sees accesses outside the exactly-sized heap block of the instance; intra-object overruns are caught by UBSan bounds checks and by the library assertions",
        "absence of dynamic allocation is decided by the separate allocation-counting run (see coverage.allocation) - not by the sanitizer build",
        "known findings: assertions that fire when the substitution limit is hit with a request still queued, and when guards of an orthogonal root issue requests during the first activation",
    ]
    return chk


def replay(path):
    return en.replay(path)
