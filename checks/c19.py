import json

import vtlib
from checks.component import run_component


def run(tier):
    chk = vtlib.Check("C19", tier, "model_checking")
    totals, samples, per_variant, extra = run_component(chk, "c19_pool.cpp", tier)
    chk.coverage = {
        "states": totals["states"],
        "transitions": totals["transitions"],
        "traces_validated_against_impl": totals["compared"],
        "samples": samples,
        "exhaustive": True,
        "pair_edges_clear_as_new": extra.get("pair_edges", 0),
        "per_variant": per_variant,
        "explanation": "BFS to a fixpoint over the concrete state of the real TaskListT (links, vacant list, counters) for "
                       "capacities 1..4 (thorough ..6), of DynamicArrayT over all contents of length <= C, and all C-tuples of "
                       "StaticArrayT over a 3-4 value alphabet; every edge compared with std::map/std::vector; after every "
                       "clear() a lock-step product exploration against a fresh pool (clear-as-new).",
    }
    chk.assumptions = [
        "pool/array objects are copied by value to branch the search (they are aggregates of integers and items)",
        "remove(i) is only called for live slots; emplace on DynamicArrayT only below capacity (overflow belongs to C11)",
        "the unconditional HFSM2_BREAK() in TaskListT::emplace's 'full' branch is treated as the documented full signal, not an assertion failure",
        "item alphabet {1,2}; contents of vacant slots other than their links are not part of the state key",
    ]
    return chk


def replay(path):
    """python3 vt.py C19 --replay replays/C19-xxxx.json : the exploration is deterministic and takes well under a minute, so a
    replay re-runs it on the current tree and reports whether the recorded fingerprint on the recorded object still fires."""
    doc = json.load(open(path))
    fp, obj = doc.get("fingerprint"), doc.get("replay", {}).get("object")
    chk = run("quick")
    hit = [v for v in chk.violations if v["fingerprint"] == fp and (obj is None or v.get("replay", {}).get("object") == obj)]
    if hit:
        print("VIOLATION property=C19 replay=%s" % path)
        vtlib.log("  %s" % hit[0]["message"])
        vtlib.log("  case: %s" % json.dumps(hit[0]["replay"]))
        return 1
    vtlib.log("C19 replay: fingerprint %s on %s does not fire any more: property held" % (fp, obj))
    return 0
