import vtlib
from checks import engine as en


def run(tier):
    chk = vtlib.Check("C13", tier, "model_checking")
    thorough = tier == "thorough"
    progs = [p for p in en.curated() if p.name != "lite"] + en.curated(names=["mixed14", "headless"], manual=True)
    args = ["--tier", tier, "--dev", "1", "--batch", "2" if thorough else "1", "--classes", str(en.cls("REQ", "SELECT")),
            "--deadline", str(en.TD if thorough else 120)]
    if thorough:
        # program families: all ordered trees with <= 4 states and the spine family (kind chains of depth 3 / 4), d = 1, single requests
        fam = en.systematic(4) + en.spines()
        for p in fam:
            p.args = ["--dev", "1", "--batch", "1", "--deadline", "90"]
        progs += fam
        chk.coverage["program_families"] = {"programs": len(fam), "rule": "all ordered trees with <= 4 states (every region kind headed; composite/resumable/orthogonal also headless) + spine family (kind chains of depth 3 in two orientations, depth 4 over C/O/R)"}
    res = en.run_all(chk, "C13", progs, args, timeout=(en.TD + 900 if thorough else 300))
    en.aggregate(chk, res, "C13")
    chk.coverage["explanation"] = (
        "At every reachable quiescent state (BFS fixpoint) and after every explored edge: activeSubState(r) equals the "
        "index of r's active sub-state / invalid iff r is inactive, at most one sub-state per region reported "
        "resumable, isPendingEnter/Exit/Change false for all ids while nothing is pending; every immediateResume(region) "
        "edge must activate the sub-state that was reported resumable (else the first); and inside every guard callback "
        "of the first round of every single-request edge the three pending queries are evaluated for all state ids and "
        "compared with the enter()/exit() callbacks the approved round then delivers.")
    chk.assumptions = [
        "regions without any composite-style ancestor (directly under an orthogonal root) are not judged for the resume clause: a request addressed to them is a no-op in this library and the statement does not say otherwise",
        "known findings (known_findings.txt): the pending queries consult only the nearest composite-style ancestor",
    ]
    return chk


def replay(path):
    return en.replay(path)
