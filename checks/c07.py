import json
import vtlib
from checks.component import run_component, VARIANTS_THOROUGH


def run(tier):
    chk = vtlib.Check("C07", tier, "model_checking")
    totals, samples, per_variant, extra = run_component(chk, "c07_plans.cpp", tier)
    if extra.get("engine_errors"):
        chk.engine_error("c07_plans: %d stored histories did not reproduce their state key on replay" % extra["engine_errors"])
    caps = "1..5" if tier == "thorough" else "1..3"
    chk.coverage = {
        "states": totals["states"],
        "transitions": totals["transitions"],
        "traces_validated_against_impl": totals["compared"],
        "samples": samples,
        "exhaustive": True,
        "replayed_ops": extra.get("replayed_ops", 0),
        "per_variant": per_variant,
        "explanation": "Real 3-region machine (root composite, composite A{A1,A2}, orthogonal B{B1,B2}) with "
                       "Config::TaskCapacityN<C>, C = %s, void and int payload; never updated, only its plan storage is "
                       "driven through the public Plan API of all three regions (fsm.plan(), fsm.plan<A>(), fsm.plan(id)): "
                       "6 append labels (id- and type-based change/restart/resume/schedule/select[With]), removal of every "
                       "non-empty subset of positions while iterating a plan to its end, clear(). BFS to a fixpoint over the "
                       "concrete storage (pool counters, per-slot contents or vacant links, taskLinks, taskBounds, "
                       "planExists); a state is its op history, re-created on a fresh instance for every edge, and the "
                       "replayed key is checked against the stored one. Every edge: all three regions compared with a "
                       "vector<vector<Task>> reference through Plan::Iterator, Plan::CIterator and CPlan::Iterator, "
                       "operator bool, append result (true iff total < C, storage untouched when false), visit sequence "
                       "of the removing iteration, and the raw-link invariant (disjoint, acyclic, prev/next consistent, "
                       "bounds = list ends, lengths add up to tasks.count(), vacant list disjoint from the plans). "
                       "states/transitions are summed over the compiler variants." % caps,
    }
    chk.assumptions = [
        "the machine is constructed but never updated: plan execution (C06) and status bits are out of scope; PlanT::clear() also "
        "clears the region's success/failure statuses, which is not observed here",
        "origin/destination ids are valid state ids of the addressed region, region ids are valid (preconditions of the API)",
        "label alphabet: 2 (origin, destination, kind[, payload]) combinations per region; in the payload flavour one label is a "
        "payload-less append (payload() == nullptr expected) and one carries the payload value 0",
        "CPlan objects are constructed directly from PlanDataT (harness is built with -fno-access-control): the const accessors "
        "Instance::plan() const / plan(id) const / plan<T>() const do not compile in this tree (3-argument CPlan{...} against the "
        "2-argument CPlanT constructor), so const access goes through 'const Plan&' and a directly constructed CPlanT",
        "planExists is recorded in the state key only; tasks are not modified through Iterator::operator*",
        "a library assertion (HFSM2_ASSERT via the HFSM2_VERIF hook, assert-enabled variants) during an op is a violation assert/<op>",
    ]
    return chk


def replay(path):
    """python3 vt.py C07 --replay replays/C07-xxxx.json : re-run the recorded op history with all oracles on."""
    doc = json.load(open(path))
    rp = doc.get("replay", doc)
    if "ops" not in rp or "machine" not in rp:
        print("not a c07_plans op-history replay (crash replays carry only stderr): %s" % path)
        return 2
    vname = rp.get("variant", "gcc")
    kw = dict(VARIANTS_THOROUGH).get(vname, dict(VARIANTS_THOROUGH)["gcc"])
    src = open(vtlib.os.path.join(vtlib.VERIF, "harness", "c07_plans.cpp")).read()
    exe = vtlib.build(src_text=src, name="c07_plans", **kw)
    recs, rc, err = vtlib.run_json([exe, "replay", rp["machine"]] + list(rp["ops"]), timeout=600)
    hit = False
    for r in recs:
        if r.get("type") == "step":
            print("  %-10s %s   ref=%s" % (r.get("op", ""), r.get("key", ""), r.get("reference", "")))
        elif r.get("type") == "violation":
            hit = True
            print("VIOLATION property=C07 replay=%s" % path)
            print("  %s: [%s] %s" % (r["fingerprint"], vname, r["message"]))
    if rc not in (0, 1) or (not recs):
        print("harness exited rc=%s: %s" % (rc, err[-2000:]))
        return 1 if rc != 2 else 2
    if not hit:
        print("replay of %s [%s]: property held" % (path, vname))
    return 1 if hit else 0
