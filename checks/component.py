"""Helper for the stand-alone component harnesses: build variants, run, aggregate."""
import os
import vtlib

# (name, kwargs for vtlib.build)
VARIANTS_QUICK = [
    ("gcc", dict(cxx="g++", std="c++17", opt="-O1")),
    ("clang-asan-assert", dict(cxx="clang++", std="c++14", opt="-O1", san=True, flags=["-DVT_ASSERT"])),
    ("gcc-dev-c++11", dict(cxx="g++", std="c++11", opt="-O1", flavour="dev")),
]
VARIANTS_THOROUGH = VARIANTS_QUICK + [
    ("clang-O2-c++11", dict(cxx="clang++", std="c++11", opt="-O2")),
    ("gcc-asan-assert", dict(cxx="g++", std="c++14", opt="-O1", san=True, flags=["-DVT_ASSERT"])),
]


def run_component(chk, src_name, tier, args=None, variants=None, timeout=3000, sum_keys=("states", "transitions", "compared")):
    src = open(os.path.join(vtlib.VERIF, "harness", src_name)).read()
    variants = variants or (VARIANTS_THOROUGH if tier == "thorough" else VARIANTS_QUICK)
    name = os.path.splitext(src_name)[0]
    specs = [dict(src_text=src, name=name, **kw) for _, kw in variants]
    exes = vtlib.build_many(specs)
    cmds = [[e] + (args or [tier]) for e in exes]
    results = vtlib.run_many(cmds, timeout=timeout)
    totals = {k: 0 for k in sum_keys}
    samples = []
    per_variant = {}
    extra = {}
    for (vname, _), (recs, rc, err) in zip(variants, results):
        summ = [r for r in recs if r.get("type") == "summary"]
        if rc != 0 or not summ:
            # a sanitizer report / crash / timeout: attribute as violation of this property with the stderr head
            head = "\n".join(err.splitlines()[:12])
            if rc == -999:
                chk.engine_error("%s[%s]: %s" % (src_name, vname, head))
            else:
                chk.violation("crash/%s" % name, "harness %s [%s] exited rc=%s without summary: %s" % (name, vname, rc, head),
                              {"harness": name, "variant": vname, "args": args or [tier], "stderr": err[-3000:]})
        for r in recs:
            if r.get("type") == "violation":
                rp = r.get("replay", {})
                if isinstance(rp, dict):
                    rp["variant"] = vname
                chk.violation(r["fingerprint"], "[%s] %s" % (vname, r["message"]), rp)
        for s in summ:
            for k in sum_keys:
                totals[k] += int(s.get(k, 0))
            if not samples:
                samples = s.get("samples", [])
            per_variant[vname] = {k: v for k, v in s.items() if k not in ("type", "samples")}
            for k, v in s.items():
                if k not in sum_keys and k not in ("type", "samples", "violations") and isinstance(v, (int, float)):
                    extra[k] = extra.get(k, 0) + v
    return totals, samples, per_variant, extra
