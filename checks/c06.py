import vtlib
from checks import engine as en


def run(tier):
    chk = vtlib.Check("C06", tier, "model_checking")
    thorough = tier == "thorough"
    names = ["plannest", "planortho"] + (["plans2", "deep3", "nestedortho"] if thorough else [])
    progs = en.curated(names=names)
    progs += en.curated(names=["plannest", "planortho"], payload="int")
    progs += en.curated(names=["plannest", "planortho"], bottom_up=True)
    progs += en.curated(names=["planortho"], manual=True)
    progs += en.curated(names=["planortho"], cxx="clang++", std="c++14", san="recover", asserts=False)
    classes = en.cls("STATUS", "PLANRESULT") | (en.cls("REQ", "PLANEDIT") if thorough else 0)
    args = ["--tier", tier, "--dev", "2", "--batch", "1", "--classes", str(classes), "--mode", "plans",
            "--deadline", str(en.TD if thorough else 110)]
    res = en.run_all(chk, "C06", progs, args, timeout=(en.TD + 900 if thorough else 420))
    en.aggregate(chk, res, "C06")
    chk.coverage["explanation"] = (
        "BFS to a fixpoint over the plan-free quiescent states of plan-oriented programs (nested and orthogonal plan "
        "owners, void and int payload, both reaction orders); from every such state every plan scenario is enumerated: "
        "every single task and every ordered pair of tasks (thorough: also across regions) from a per-region task alphabet "
        "(change / restart / cyclic / resume, two tasks per origin), attached through the real Plan API, followed by "
        "update() and react() under EVERY choice vector with <= 2 non-default callback decisions (succeed / fail in any "
        "phase of any active state, swallow or re-request in planSucceeded/planFailed; thorough: requests and plan edits "
        "from callbacks). Library-issued requests are identified from the attached logger. Safety (strict): each "
        "execution is justified by the first in-order task with active, succeeded origin; executed tasks are gone; "
        "marks never survive the step or the exit of their state. Liveness (unambiguous class): direct sub-state "
        "success, head silent, no request from inside the region => every task of a succeeded origin executed (until a "
        "cyclic task of that origin consumed the success), or "
        "planSucceeded when the attached plan is empty; direct sub-state failure => planFailed; default handlers "
        "propagate to the enclosing owner in the same step.")
    chk.assumptions = [
        "plan contents are bounded by the scenario alphabet (<= 2 tasks attached before the step); plans left over after a step are not expanded further",
        "liveness is only demanded when all marks are on direct sub-states, the head did not report itself and nothing inside the region issued a request or edited a plan",
        "known finding: the executor always issues changeTo (known_findings.txt, task/wrong-kind)",
    ]
    return chk


def replay(path):
    return en.replay(path)
