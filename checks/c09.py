import vtlib
from checks import engine as en

QUICK = ["flat3", "deep3", "strat3", "stratutil", "orthoroot", "nestedortho", "width1", "inject", "headless", "wide5", "nestsel", "lite"]


def run(tier):
    chk = vtlib.Check("C09", tier, "model_checking")
    thorough = tier == "thorough"
    progs = en.curated(names=None if thorough else QUICK)
    progs += en.curated(names=["deep3", "headless", "orthoroot", "nestedortho"], manual=True)
    progs += en.curated(names=["deep3", "orthoroot"], payload="int")
    # substitution limit 1: a single approved request fills the per-step history exactly
    progs += [en.Prog("flat3-lim1", en.st.CURATED["flat3"], sublimit=1), en.Prog("flat3-lim1", en.st.CURATED["flat3"], sublimit=1, manual=True),
              en.Prog("deep3-lim1", en.st.CURATED["deep3"], sublimit=1, manual=True)]
    args = ["--tier", tier, "--dev", "2" if thorough else "1", "--batch", "2", "--classes", str(en.cls("REQ", "GUARD")),
            "--dev-immediate", "1", "--imm-reduced", "0" if thorough else "1", "--deadline", str(en.TD if thorough else 150)]
    if thorough:
        args += ["--initial-cancel", "1"]
    if not thorough:
        # the two smallest programs (flat; orthogonal root) once more with two deviations (e.g. a guard-issued follow-up request that is vetoed in its round)
        d2 = en.curated(names=["flat3"]) + [en.Prog("tinyortho", "O(C(l,l),l)"), en.Prog("tinyortho2", "C(O(l,l),l)")]
        for p in d2:
            p.args = ["--dev", "2", "--initial-cancel", "1"]
            p.label += "/dev2"
        progs += d2
    if thorough:
        # program families: all ordered trees with <= 4 states and the spine family (kind chains of depth 3 / 4), d = 1, single requests
        fam = en.systematic(4) + en.spines()
        for p in fam:
            p.args = ["--dev", "1", "--batch", "1", "--deadline", "90"]
        progs += fam
        chk.coverage["program_families"] = {"programs": len(fam), "rule": "all ordered trees with <= 4 states (every region kind headed; composite/resumable/orthogonal also headless) + spine family (kind chains of depth 3 in two orientations, depth 4 over C/O/R)"}
    res = en.run_all(chk, "C09", progs, args, timeout=(en.TD + 900 if thorough else 400))
    en.aggregate(chk, res, "C09")
    chk.coverage["explanation"] = (
        "After every explored processing edge (all single requests, all ordered batches, requests from callbacks, every "
        "guard cancel / substitute / extra-request deviation, manual initial activation with guard-issued requests) the "
        "authority's previousTransitions() is compared with the requests the environment issued, grouped by guard round: "
        "order-preserving sub-sequence of the non-vetoed requests, contains every approved transition request, nothing "
        "from a vetoed round, empty when nothing was approved; lastTransitionTo(s) for all ids; then an identically "
        "prepared replica (same history replayed on a fresh instance) gets replayTransitions()/replayEnter() with that "
        "list and must reach the same active configuration without any guard callback, and the same resumable marks for "
        "single-round schedule-free steps. The counter c09_replays is the number of replica replays.")
    chk.assumptions = ["policy (d): a scheduling or redundant request riding along in an approved round is neither required nor forbidden in the recorded list",
                       "the group of requests issued by the guards of the last visible round is evaluated without guard callbacks; it may be recorded but is not required",
                       "steps with plan activity are left to C06"]
    return chk


def replay(path):
    return en.replay(path)
