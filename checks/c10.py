import vtlib
from checks import engine as en


def run(tier):
    chk = vtlib.Check("C10", tier, "model_checking")
    thorough = tier == "thorough"
    progs = en.curated()
    progs += en.curated(names=["randroot", "randfirst", "stratutil", "nestutil"], scripted_rng=False)
    progs += en.curated(names=["randroot", "randfirst", "mixed14"], scripted_rng=False, cxx="clang++", std="c++14", opt="-O2")
    progs += en.curated(names=["mixed14", "headless", "randroot"], manual=True)
    progs += en.curated(names=["deep3", "plans2"], payload="fat")
    # plans with a payload type: tasks with and without payload live in the instance's own storage (plans mode: external plan
    # edits, status reports and plan results as the deviation classes)
    plan_progs = en.curated(names=["plannest", "planortho"], payload="int") + en.curated(names=["plannest"], payload="fat", manual=True)
    for p in plan_progs:
        p.args = ["--mode", "plans", "--classes", str(en.cls("STATUS", "PLANRESULT")), "--dev", "1", "--batch", "1"]
    progs += plan_progs
    args = ["--tier", tier, "--dev", "1" if thorough else "0", "--batch", "1", "--classes", str(en.cls("REQ", "GUARD")),
            "--deadline", str(en.TD if thorough else 150)]
    if thorough:
        # program families: all ordered trees with <= 4 states and the spine family (kind chains of depth 3 / 4)
        fam = [p for p in en.systematic(4) + en.spines()]
        for p in fam:
            p.args = ["--dev", "0", "--batch", "1", "--deadline", "90"]
        progs += fam
        chk.coverage["program_families"] = {"programs": len(fam), "rule": "all ordered trees with <= 4 states (every region kind headed; composite/resumable/orthogonal also headless) + spine family (kind chains of depth 3 in two orientations, depth 4 over C/O/R)"}
    res = en.run_all(chk, "C10", progs, args, timeout=(en.TD + 900 if thorough else 400))
    en.aggregate(chk, res, "C10")
    chk.coverage["explanation"] = (
        "Differential determinism checks over the complete reachable state graph of each program (scripted and built-in "
        "generator, g++ and clang++ -O2): (a) every base-alphabet edge from every state is re-executed on instances "
        "placement-constructed in storage pre-filled with 0x00 / 0xFF / 0xA5 at fresh heap addresses - traces, answers "
        "and state keys must be identical (this includes the activation inside the constructor); every exploration edge "
        "also re-checks that replaying a stored history reproduces the stored state key; (b) all ordered pairs of short "
        "histories are run on two instances interleaved step by step and must reach the states they reach alone; (c) at "
        "every reachable state the instance is copy-constructed and every base-alphabet op is applied to the copy, then to "
        "the original: the copy must continue exactly like a freshly replayed original (trace, key, this pointers on its "
        "own objects), must not change the original, and the original must go on unaffected.")
    chk.assumptions = ["known finding: copies share the original's built-in generator (known_findings.txt)",
                       "feature-configuration independence is C15's subject; here one full-feature configuration per compiler"]
    return chk


def replay(path):
    return en.replay(path)
