"""Machine-structure DSL, independent identifier numbering and C++ emission for generated HFSM2 programs.

DSL:  l = leaf state;  K(child,child,...) = region, K in
      C composite  R resumable  S selectable  U utilitarian  N random  O orthogonal   (headed)
      c r s u n o                                                                     (headless: *Peers*)
The outermost node is the root (must be a region). Whitespace is ignored.
Optional leaf/region decorations (suffix):  'i' after a node -> its probe derives from injected bases
                                            'q' after a node -> 'lite' probe overriding only a few callbacks
"""
import itertools

KINDS = {"C": "Composite", "R": "Resumable", "S": "Selectable", "U": "Utilitarian", "N": "Random", "O": "Orthogonal"}
STRAT = {"C": 0, "R": 1, "S": 2, "U": 3, "N": 4, "O": 5, "l": 6}


class Node:
    __slots__ = ("kind", "headless", "children", "id", "parent", "prong", "region_id", "compo_index", "ortho_index",
                 "inject", "lite", "size", "ortho_unit")

    def __init__(self, kind, headless=False, children=None):
        self.kind = kind  # 'l' or one of CRSUNO
        self.headless = headless
        self.children = children or []
        self.inject = False
        self.lite = False

    @property
    def is_region(self):
        return self.kind != "l"

    @property
    def is_ortho(self):
        return self.kind == "O"

    @property
    def is_compo(self):
        return self.kind in "CRSUN"

    def dsl(self):
        if not self.is_region:
            s = "l"
        else:
            k = self.kind.lower() if self.headless else self.kind
            s = k + "(" + ",".join(c.dsl() for c in self.children) + ")"
        return s + ("i" if self.inject else "") + ("q" if self.lite else "")


def parse(s):
    s = "".join(s.split())
    pos = 0

    def node():
        nonlocal pos
        ch = s[pos]
        pos += 1
        if ch == "l":
            n = Node("l")
        elif ch.upper() in KINDS:
            assert s[pos] == "(", "expected ( at %d in %s" % (pos, s)
            pos += 1
            kids = [node()]
            while s[pos] == ",":
                pos += 1
                kids.append(node())
            assert s[pos] == ")", "expected ) at %d in %s" % (pos, s)
            pos += 1
            n = Node(ch.upper(), ch.islower(), kids)
        else:
            raise ValueError("bad char %r at %d in %s" % (ch, pos - 1, s))
        while pos < len(s) and s[pos] in "iq":
            if s[pos] == "i":
                n.inject = True
            else:
                n.lite = True
            pos += 1
        return n

    root = node()
    assert pos == len(s), "trailing input in " + s
    assert root.is_region
    number(root)
    return root


def number(root):
    """Independent depth-first numbering (the library's own numbering is what C17 compares against)."""
    sid = itertools.count()
    rid = itertools.count()
    cid = itertools.count()
    oid = itertools.count()
    unit = [0]

    def walk(n, parent, prong):
        n.id = next(sid)
        n.parent = parent
        n.prong = prong
        n.region_id = n.compo_index = n.ortho_index = -1
        n.ortho_unit = -1
        if n.is_region:
            n.region_id = next(rid)
            if n.is_ortho:
                n.ortho_index = next(oid)
                n.ortho_unit = unit[0]
                unit[0] += (len(n.children) + 7) // 8
            else:
                n.compo_index = next(cid)
            for i, c in enumerate(n.children):
                walk(c, n, i)
        n.size = 1 + sum(c.size for c in n.children)

    walk(root, None, -1)
    return root


def nodes(root):
    out = []

    def walk(n):
        out.append(n)
        for c in n.children:
            walk(c)

    walk(root)
    return out


def counts(root):
    ns = nodes(root)
    compo = [n for n in ns if n.is_compo]
    ortho = [n for n in ns if n.is_ortho]
    prongs = sum(len(n.children) for n in compo)
    units = sum((len(n.children) + 7) // 8 for n in ortho)

    def bits(w):  # bits needed to store a prong index of a region of width w (library: bitWidth(WIDTH))
        b = 0
        while (1 << b) < w:
            b += 1
        return b

    def active(n):  # bits written for the *active* configuration: only the active child of a composite is descended
        if n.is_compo:
            return bits(len(n.children)) + max(active(c) for c in n.children)
        if n.is_ortho:
            return sum(active(c) for c in n.children)
        return 0

    active_bits = active(root)
    resumable_bits = sum(bits(len(n.children)) + 1 for n in compo)
    return dict(states=len(ns), regions=len(compo) + len(ortho), compo=len(compo), ortho=len(ortho), prongs=prongs,
                units=units, active_bits=active_bits, resumable_bits=resumable_bits,
                serial_bits=1 + active_bits + resumable_bits, task_capacity=prongs * 2)


def uses_utility(root):
    return any(n.kind in "UN" for n in nodes(root))


def has_ortho(root):
    return any(n.is_ortho for n in nodes(root))


def serializable(root):
    """width-1 composite regions do not compile with serialization (write<0> static_assert)."""
    return all(len(n.children) > 1 for n in nodes(root) if n.is_compo)


def type_expr(n, is_root=False):
    if not n.is_region:
        return "S%d" % n.id
    kids = ", ".join(type_expr(c) for c in n.children)
    name = KINDS[n.kind]
    if is_root:
        if n.kind == "C":
            name = "PeerRoot" if n.headless else "Root"
        else:
            name = name + ("PeerRoot" if n.headless else "Root")
        return "M::%s<%s%s>" % (name, "" if n.headless else "S%d, " % n.id, kids)
    if n.headless:
        return "M::%sPeers<%s>" % (name, kids)
    return "M::%s<S%d, %s>" % (name, n.id, kids)


def emit_program(root, name, cfg):
    """cfg: dict(features=[...macro names], manual=bool, bottom_up=bool, payload='void'|'int'|'fat'|'over',
                 sublimit=int|None, taskcap=int|None, scripted_rng=bool, logger=bool, engine_main='engine/main.hpp')"""
    ns = nodes(root)
    cnt = counts(root)
    out = []
    for f in cfg.get("features", []):
        out.append("#define %s" % f)
    out.append('#define VT_PROG_NAME "%s"' % name)
    out.append('#define VT_PROG_DSL "%s"' % root.dsl())
    out.append("#define VT_STATE_COUNT %d" % cnt["states"])
    out.append("#define VT_ORTHO_COUNT %d" % cnt["ortho"])
    out.append("#define VT_COMPO_COUNT %d" % cnt["compo"])
    out.append("#define VT_MANUAL %d" % (1 if cfg.get("manual") else 0))
    out.append("#define VT_BOTTOM_UP %d" % (1 if cfg.get("bottom_up") else 0))
    payload = cfg.get("payload", "void")
    out.append("#define VT_PAYLOAD_%s 1" % payload.upper())
    out.append("#define VT_SUBLIMIT %d" % (cfg.get("sublimit") or 4))
    if cfg.get("taskcap"):
        out.append("#define VT_TASKCAP %d" % cfg["taskcap"])
    out.append("#define VT_SCRIPTED_RNG %d" % (1 if cfg.get("scripted_rng", True) else 0))
    out.append('#include "engine/pre.hpp"')
    out.append("using Config = VT_CONFIG;")
    out.append("using M = hfsm2::MachineT<Config>;")
    named = [n for n in ns if not (n.is_region and n.headless)]
    for n in named:
        out.append("struct S%d;" % n.id)
    out.append("using FSM = %s;" % type_expr(root, True))
    for n in named:
        if n.inject:
            out.append("struct S%d : vt::Probe<FSM, %d, vt::Inject<FSM, %d, 0>, vt::Inject<FSM, %d, 1>> {};" % (n.id, n.id, n.id, n.id))
        elif n.lite:
            out.append("struct S%d : vt::ProbeLite<FSM, %d> {};" % (n.id, n.id))
        else:
            out.append("struct S%d : vt::Probe<FSM, %d> {};" % (n.id, n.id))
    # descriptor: id parent prong kind headless width first_child region_id compo_index ortho_index size inject lite
    out.append("static const vt::StateDesc VT_DESC[VT_STATE_COUNT] = {")
    for n in ns:
        out.append("  {%d, %d, %d, %d, %d, %d, %d, %d, %d, %d, %d, %d, %d, %d}," % (
            n.id, n.parent.id if n.parent else -1, n.prong, STRAT[n.kind], 1 if (n.is_region and n.headless) else 0,
            len(n.children), n.children[0].id if n.children else -1, n.region_id, n.compo_index, n.ortho_index, n.size,
            1 if n.inject else 0, 1 if n.lite else 0, n.ortho_unit))
    out.append("};")
    out.append("static const vt::Counts VT_COUNTS = {%d, %d, %d, %d, %d, %d, %d, %d};" % (
        cnt["states"], cnt["regions"], cnt["compo"], cnt["ortho"], cnt["prongs"], cnt["units"], cnt["serial_bits"], cnt["task_capacity"]))
    # access<> table: address of each named state's object inside an instance
    out.append("static const void* vt_access(FSM::Instance& fsm, int id) {")
    out.append("  switch (id) {")
    for n in named:
        out.append("    case %d: return static_cast<const void*>(&fsm.access<S%d>());" % (n.id, n.id))
    out.append("    default: return nullptr;")
    out.append("  }")
    out.append("}")
    # compile-time identity checks (library numbering vs the independent numbering above)
    for n in named:
        out.append('static_assert(FSM::stateId<S%d>() == %d, "stateId");' % (n.id, n.id))
        if n.is_region:
            out.append('static_assert(FSM::regionId<S%d>() == %d, "regionId");' % (n.id, n.region_id))
    out.append('#include "%s"' % cfg.get("engine_main", "engine/main.hpp"))
    return "\n".join(out) + "\n"


# --------------------------------------------------------------------------------------------------
# program families

CURATED = {
    # name: dsl
    "flat3": "C(l,l,l)",
    "deep3": "C(l,C(C(l,l),l),l)",
    "strat3": "C(C(l,l),R(l,l),S(l,l))",
    "stratutil": "C(U(l,l),N(l,l),R(l,l))",
    "orthoroot": "O(C(l,l),R(l,l),l)",
    "mixed14": "R(l,O(l,R(l,l),l,C(l,l)),C(l,l),l)",
    "nestsel": "C(S(C(l,l),R(l,l)),l)",
    "widesel": "C(S(l,C(l,l),R(l,l),l),l)",
    "nestutil": "C(U(C(l,l),l),N(R(l,l),l))",
    "utilrand": "C(U(l,N(l,l,l)),l)",
    "headless": "c(c(l,l),o(l,r(l,l)),l)",
    "ortho89": "C(O(l,l,l,l,l,l,l,C(l,l)),O(l,l,l,l,l,l,l,l,R(l,l)),l)",
    "ortho8last": "C(l,O(l,l,l,l,l,l,l,l))",
    "nestedortho": "C(O(O(l,l),C(l,l)),l)",
    "orthodeep": "O(C(C(l,C(l,l)),l),l)",
    "orthospine": "C(O(C(l,C(l,l)),l),l)",
    "orthopair": "C(O(C(C(l,l),l),C(l,l)),l)",
    "wide5": "C(l,C(l,l),l,R(l,l),l)",
    "wide7": "C(C(l,l),l,l,l,R(l,l),l,l)",
    "width1": "C(C(l),O(l),l)",
    "plans2": "C(C(l,C(l,l)),O(C(l,l),l),l)",
    "plannest": "C(C(l,C(l,l)),l)",
    "planortho": "C(O(C(l,l),l),l)",
    "randroot": "N(l,l,l,l)",
    "randfirst": "C(N(l,l,l),l)",
    "inject": "C(li,C(l,li)i,O(li,l)i)",
    "lite": "C(lq,C(l,lq)q,O(lq,l)q)",
}


def all_trees(max_states, kinds="CRO", headless=True, min_states=2):
    """All ordered trees with <= max_states states whose root is a region and which contain >= 1 composite-style region."""
    from functools import lru_cache

    @lru_cache(None)
    def forests(n, k_min):
        """all sequences (tuples of dsl strings) of >= k_min trees with total n states"""
        res = []
        if n == 0:
            return [()] if k_min <= 0 else []
        for first in range(1, n + 1):
            for t in trees(first):
                for rest in forests(n - first, max(0, k_min - 1)):
                    res.append((t,) + rest)
        return res

    @lru_cache(None)
    def trees(n):
        res = []
        if n == 1:
            res.append("l")
        if n >= 2:
            for kids in forests(n - 1, 1):
                body = "(" + ",".join(kids) + ")"
                for k in kinds:
                    res.append(k + body)
                    if headless:
                        res.append(k.lower() + body)
        return res

    out = []
    for n in range(min_states, max_states + 1):
        for t in trees(n):
            if t == "l":
                continue
            if not any(ch in "CRSUNcrsun" for ch in t):
                continue
            out.append(t)
    return out


if __name__ == "__main__":
    import sys
    for name, d in CURATED.items():
        r = parse(d)
        print(name, r.dsl(), counts(r))
    for n in range(2, 7):
        print(n, len(all_trees(n)))
