#!/bin/bash
# usage: seed_vet.sh <seeded id, e.g. C04-A> [check ids... default: the property of the seeded change]
#   re-vets one stored seeded change against the CURRENT /repo and the CURRENT checks, on a scratch copy outside /repo and /verif:
#   patch applies (no fuzz), demo fails with it / passes without it, the repository's test suite still passes, then the quick checks.
#   log: /var/tmp/vet_<id>.log ; nothing in /repo or in the committed evidence is touched (VERIF_REPO -> evidence_scratch/).
#   SKIP_SUITE=1 skips the (slow) repository suite.
sid=$1; shift
S=/verif/seeded/$sid
[ -f $S/patch.diff ] || { echo "no such seeded change: $sid"; exit 2; }
prop=${sid%%-*}
checks="$@"; [ -z "$checks" ] && checks=$prop
d=/var/tmp/mut_$sid
log=/var/tmp/vet_$sid.log
rm -rf $d; mkdir -p $d
cp -r /repo/development /repo/include /repo/tools /repo/test /repo/external $d/
( cd $d && patch -p1 -s -F0 < $S/patch.diff ) > $log 2>&1 || { echo "PATCH-FAILED (the stored patch no longer applies to /repo; 3-way merge it: git apply --3way --include='development/*', re-join)" >> $log; tail -1 $log; rm -rf $d; exit 1; }
echo "== demo with change" >> $log
g++ -std=c++14 -w -I$d/include $S/demo.cpp -o $d/demo_mut >> $log 2>&1 && ( $d/demo_mut > $d/demo_mut.out 2>&1; echo "demo_with_change_exit=$?" >> $log )
g++ -std=c++14 -w -I/repo/include $S/demo.cpp -o $d/demo_orig >> $log 2>&1 && ( $d/demo_orig > $d/demo_orig.out 2>&1; echo "demo_without_change_exit=$?" >> $log )
if [ -z "$SKIP_SUITE" ]; then
  echo "== suite" >> $log
  /verif/tools_suite.sh $d 2>&1 | grep -v conda | tail -3 >> $log
fi
for c in $checks; do
  echo "== check $c quick" >> $log
  ( cd /verif && VERIF_REPO=$d python3 vt.py $c --tier quick 2>&1 | grep -v conda | grep -v "^KNOWN" | grep "VIOLATION\|^  \|quick:\|ENGINE" | head -60 | cut -c1-400 ) >> $log
done
echo "== done" >> $log
rm -rf $d
grep "demo_\|Status\|VIOLATION\|quick:" $log | cut -c1-200
