#!/bin/bash
# usage: seed_vet.sh <prop id, e.g. c01> <A|B> [extra check ids...]   - vets one seeded change and runs the checks against it
id=$1; ab=$2; shift 2
ID=$(echo $id | tr a-z A-Z)
R=${SEED_ROUND:-}
src=/tmp/seed${R}_${id}_out
d=/var/tmp/mut${R}_${id}${ab}
log=/var/tmp/vet${R}_${id}${ab}.log
rm -rf $d; mkdir -p $d
cp -r /repo/development /repo/include /repo/tools /repo/test /repo/external $d/
# the agent's diff was made against an older HEAD: /var/tmp/rebased_<id><AB>.diff is its 3-way merge onto the current one
# (development/ part applied with git apply --3way, single header re-joined); it applies without fuzz
pf=$src/mutant${ab}.diff; [ -f /var/tmp/rebased${R}_${id}${ab}.diff ] && pf=/var/tmp/rebased${R}_${id}${ab}.diff
( cd $d && patch -p1 -s -F0 < $pf ) > $log 2>&1 || { echo "PATCH-FAILED" >> $log; exit 1; }
echo "patch=$pf" >> $log
echo "== demo with change" >> $log
g++ -std=c++14 -I$d/include $src/demo${ab}.cpp -o $d/demo_mut >> $log 2>&1 && ( $d/demo_mut > $d/demo_mut.out 2>&1; echo "demo_with_change_exit=$?" >> $log )
g++ -std=c++14 -I/repo/include $src/demo${ab}.cpp -o $d/demo_orig >> $log 2>&1 && ( $d/demo_orig > $d/demo_orig.out 2>&1; echo "demo_without_change_exit=$?" >> $log )
echo "== suite" >> $log
/verif/tools_suite.sh $d 2>&1 | grep -v conda | tail -3 >> $log
for c in $ID "$@"; do
  echo "== check $c quick" >> $log
  ( cd /verif && VERIF_REPO=$d python3 vt.py $c --tier quick 2>&1 | grep -v conda | grep -v "^KNOWN" | tail -12 | cut -c1-400 ) >> $log
done
echo "== done" >> $log
