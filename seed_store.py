#!/usr/bin/env python3
"""seed_store.py <id> <A|B>: after seed_vet.sh, store a vetted seeded change under /verif/seeded/<ID>-<A|B>/"""
import json, os, re, shutil, sys
pid, ab = sys.argv[1], sys.argv[2]
R = os.environ.get("SEED_ROUND", "")
src = "/tmp/seed%s_%s_out" % (R, pid)
log = open("/var/tmp/vet%s_%s%s.log" % (R, pid, ab), errors="replace").read()
# round 2 changes are stored as <ID>-C / <ID>-D
dst = "/verif/seeded/%s-%s" % (pid.upper(), ab if not R else {"A": "C", "B": "D"}[ab])
with_exit = re.search(r"demo_with_change_exit=(\d+)", log)
without_exit = re.search(r"demo_without_change_exit=(\d+)", log)
suite_ok = "51 passed | 0 failed" in log
if not (with_exit and without_exit and with_exit.group(1) != "0" and without_exit.group(1) == "0" and suite_ok):
    print("NOT KEPT: verification failed", with_exit and with_exit.group(1), without_exit and without_exit.group(1), suite_ok)
    sys.exit(1)
os.makedirs(dst, exist_ok=True)
rebased = "/var/tmp/rebased%s_%s%s.diff" % (R, pid, ab)
orig = os.path.join(src, "mutant%s.diff" % ab)
if os.path.exists(rebased):
    # patch.diff applies to /repo's HEAD at the time of vetting; the agent's diff (older base) is kept next to it when it differs
    shutil.copy(rebased, os.path.join(dst, "patch.diff"))
    if open(rebased).read() != open(orig).read():
        shutil.copy(orig, os.path.join(dst, "patch.as-written-by-agent.diff"))
else:
    shutil.copy(orig, os.path.join(dst, "patch.diff"))
shutil.copy(os.path.join(src, "demo%s.cpp" % ab), os.path.join(dst, "demo.cpp"))
meta = json.load(open(os.path.join(src, "meta%s.json" % ab)))
checks = {}
cur = None
for line in log.splitlines():
    m = re.match(r"== check (C\d+) quick", line)
    if m:
        cur = m.group(1); checks[cur] = {"verdict": "no result", "fingerprints": []}
        continue
    if cur:
        m = re.match(r"\s+([a-zA-Z0-9_/().\-:=|!<>&*,;\[\]]+): \[", line)
        if m: checks[cur]["fingerprints"].append(m.group(1))
        m = re.search(r"%s quick: (\w+) in" % cur, line)
        if m: checks[cur]["verdict"] = m.group(1)
meta_out = {
    "breaks_property": pid.upper(),
    "origin": "independent sub-agent with its own scratch worktree of /repo, given only the property text" + (" and one-line descriptions of the two round-1 changes to avoid" if R else ""),
    "agent_description": meta,
    "verified_by_me": {
        "applies_to": "repo HEAD at the time of vetting (%s); patch.diff = the agent's change 3-way merged onto that HEAD, single header re-joined; vetted on a scratch copy under /var/tmp" % os.popen("git -C /repo log --oneline | head -1").read().strip(),
        "repository_suite_with_change": "51 test cases passed, 0 failed (tools_suite.sh)",
        "demo_exit_with_change": int(with_exit.group(1)), "demo_exit_without_change": int(without_exit.group(1)),
    },
    "checks_run_against_it": checks,
}
json.dump(meta_out, open(os.path.join(dst, "meta.json"), "w"), indent=1)
print("kept", dst, {k: (v["verdict"], v["fingerprints"][:3]) for k, v in checks.items()})
