#!/usr/bin/env python3
"""seed_store.py <id> <A|B>: after seed_vet.sh, store a vetted seeded change under /verif/seeded/<ID>-<A|B>/"""
import json, os, re, shutil, sys
pid, ab = sys.argv[1], sys.argv[2]
src = "/tmp/seed_%s_out" % pid
log = open("/var/tmp/vet_%s%s.log" % (pid, ab), errors="replace").read()
dst = "/verif/seeded/%s-%s" % (pid.upper(), ab)
with_exit = re.search(r"demo_with_change_exit=(\d+)", log)
without_exit = re.search(r"demo_without_change_exit=(\d+)", log)
suite_ok = "51 passed | 0 failed" in log
if not (with_exit and without_exit and with_exit.group(1) != "0" and without_exit.group(1) == "0" and suite_ok):
    print("NOT KEPT: verification failed", with_exit and with_exit.group(1), without_exit and without_exit.group(1), suite_ok)
    sys.exit(1)
os.makedirs(dst, exist_ok=True)
shutil.copy(os.path.join(src, "mutant%s.diff" % ab), os.path.join(dst, "patch.diff"))
shutil.copy(os.path.join(src, "demo%s.cpp" % ab), os.path.join(dst, "demo.cpp"))
meta = json.load(open(os.path.join(src, "meta%s.json" % ab)))
checks = {}
cur = None
for line in log.splitlines():
    m = re.match(r"== check (C\d+) quick", line)
    if m:
        cur = m.group(1); checks[cur] = {"verdict": "no result", "fingerprints": []}
        continue
    if cur:
        m = re.match(r"\s+([a-zA-Z0-9_/().\-:=|!<>&*,;\[\]]+): \[", line)
        if m: checks[cur]["fingerprints"].append(m.group(1))
        m = re.search(r"%s quick: (\w+) in" % cur, line)
        if m: checks[cur]["verdict"] = m.group(1)
meta_out = {
    "breaks_property": pid.upper(),
    "origin": "independent sub-agent with its own scratch worktree of /repo, given only the property text",
    "agent_description": meta,
    "verified_by_me": {
        "applies_to": "repo HEAD at the time of vetting (patch -p1 on a scratch copy under /var/tmp)",
        "repository_suite_with_change": "51 test cases passed, 0 failed (tools_suite.sh)",
        "demo_exit_with_change": int(with_exit.group(1)), "demo_exit_without_change": int(without_exit.group(1)),
    },
    "checks_run_against_it": checks,
}
json.dump(meta_out, open(os.path.join(dst, "meta.json"), "w"), indent=1)
print("kept", dst, {k: (v["verdict"], v["fingerprints"][:3]) for k, v in checks.items()})
