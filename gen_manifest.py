#!/usr/bin/env python3
"""Regenerates MANIFEST.json from the table below (kept in one place so it is always valid)."""
import json, os
HERE = os.path.dirname(os.path.abspath(__file__))
CHECKS = {}
def chk(pid, cat, text, note, technique, design_ref):
    CHECKS[pid] = dict(cat=cat, text=text, note=note, technique=technique, design_ref=design_ref)

exec(open(os.path.join(HERE, "manifest_table.py")).read())

props = [json.loads(l)["id"] for l in open(os.path.join(HERE, "properties.jsonl"))]
m = {
    "version": 1,
    "setup_cmd": "cd /verif && python3 setup.py",
    "hooks": {
        "guard": "HFSM2_VERIF",
        "enable": "checks compile their harnesses against /repo's working tree with -DHFSM2_VERIF (and -DHFSM2_ENABLE_ASSERT in the assertion builds); the hook only re-routes HFSM2_BREAK() to an external handler",
        "baseline_off_cmd": "cd /repo && cmake --build _build && ctest --test-dir _build --output-on-failure",
        "source_commits": SOURCE_COMMITS,
        "add_only": True,
    },
    "engines": ENGINES,
    "checks": [],
    "notes": NOTES,
    "not_applicable": [],
}
for pid in props:
    if pid in CHECKS:
        c = CHECKS[pid]
        m["checks"].append({
            "property_id": pid,
            "quick_cmd": "cd /verif && python3 vt.py %s --tier quick" % pid,
            "thorough_cmd": "cd /verif && python3 vt.py %s --tier thorough" % pid,
            "evidence_file": "/verif/evidence/%s.json" % pid,
            "replay_cmd_template": "cd /verif && python3 vt.py %s --replay {path}" % pid,
            "engine": c.get("engine", "vt"),
            "level_claimed": {"category": c["cat"], "text": c["text"], "design_ref": c["design_ref"]},
            "level_note": c["note"],
            "technique": c["technique"],
        })
    else:
        m["not_applicable"].append({"property_id": pid, "reason": PENDING.get(pid, "check not built yet in this revision (work in progress, see DESIGN.md section 10); not claimed")})
json.dump(m, open(os.path.join(HERE, "MANIFEST.json"), "w"), indent=1)
print("claimed:", [c["property_id"] for c in m["checks"]])
