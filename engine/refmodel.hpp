// Reference semantics of request processing (DESIGN.md 3.4) - a boring tree walk written from the property text.
// It predicts, for a batch of requests applied to a configuration (active + reported-resumable sub-states), the
// configuration after an un-vetoed processing call. It is *not* a transcription of the library's routing code.
#pragma once

namespace vt {

template <typename FSM>
struct RefModel {
	using E = Engine<FSM>;
	static constexpr int N = E::N;

	// configuration: per state id of a composite-style region: active prong (-1 inactive) / resumable prong (-1 none)
	std::vector<int> act, res;
	// prediction
	std::vector<int> act2, left;  // act2: active prong after; left[r]: sub-state r last left / was scheduled (-1: unchanged/none)
	std::vector<uint8_t> touched;  // regions whose sub-state choice was (re)made by the batch
	// pending target map
	std::vector<int> P;
	std::vector<int> path;	 // per composite region: prong on the path of some request of the batch (also where nothing had to change)
	std::vector<uint8_t> obit;	// per state: "its orthogonal parent was asked to (re)activate this child"
	// answers of the environment in this step
	std::function<int(int)> selectOf;
	std::function<float(int)> utilityOf;
	std::function<int(int)> rankOf;
	float rnd = 0.0f;
	// diagnostics
	bool usedSelectOnRegion = false, usedUtility = false, usedRandom = false, unresolved = false, randomFellOff = false;
	int randomDraws = 0;
	std::string note;

	void init(const Snap& before) {
		act.assign(N, -1); res.assign(N, -1);
		for (int r = 0; r < N; ++r)
			if (E::isCompo(r)) {
				if (before.active[r]) act[r] = before.activeSub[r];
				for (int p = 0; p < E::D(r).width; ++p)
					if (before.resumable[E::child(r, p)]) res[r] = p;
			}
		P.assign(N, -1); obit.assign(N, 0); path.assign(N, -1);
		left.assign(N, -2); touched.assign(N, 0);
	}

	// ---- picks ----------------------------------------------------------------------------------
	// utility of state s if it were activated by a request of this kind (C12 rules)
	float utilityFor(int s, int kind) {
		const float h = utilityOf(s);
		if (!E::isRegion(s)) return h;
		if (E::isOrtho(s)) {
			float sum = 0;
			const int w = E::D(s).width;
			for (int p = 0; p < w; ++p) sum += utilityFor(E::child(s, p), kind);
			return h * (sum / (float) w);
		}
		const int c = pick(s, kind, false);
		return h * utilityFor(E::child(s, c), kind);
	}

	int pickUtilitarian(int r, int kind) {
		usedUtility = true;
		int best = 0;
		float bu = -1;
		for (int p = 0; p < E::D(r).width; ++p) {
			const float u = utilityFor(E::child(r, p), kind);
			if (u > bu) { bu = u; best = p; }  // leftmost maximum
		}
		return best;
	}
	int pickRandom(int r, int kind, bool commit) {
		usedRandom = true;
		const int w = E::D(r).width;
		int top = -1000;
		for (int p = 0; p < w; ++p) top = std::max(top, rankOf(E::child(r, p)));
		std::vector<float> u(w, 0.0f);
		float sum = 0;
		for (int p = 0; p < w; ++p)
			if (rankOf(E::child(r, p)) == top) { u[p] = utilityFor(E::child(r, p), kind); sum += u[p]; }
		if (commit) ++randomDraws;
		// exact on the dyadic alphabets used by the engine: the child whose cumulative interval contains rnd*sum
		float cursor = rnd * sum;
		for (int p = 0; p < w; ++p)
			if (rankOf(E::child(r, p)) == top) {
				if (cursor < u[p]) return p;
				cursor -= u[p];
			}
		randomFellOff = true;
		for (int p = w - 1; p >= 0; --p) if (rankOf(E::child(r, p)) == top && u[p] > 0) return p;
		return 0;
	}

	// the sub-state region r picks when it is entered / re-targeted by a request of this kind
	int pick(int r, int kind, bool commit) {
		switch (kind) {
		case T_RESTART: return 0;
		case T_RESUME: return res[r] >= 0 ? res[r] : 0;
		case T_SELECT: return selectOf(r);
		case T_UTILIZE: return pickUtilitarian(r, kind);
		case T_RANDOMIZE: return pickRandom(r, kind, commit);
		default:  // change: the strategy the region was declared with
			switch (E::D(r).kind) {
			case K_COMPOSITE: return 0;
			case K_RESUMABLE: return res[r] >= 0 ? res[r] : 0;
			case K_SELECTABLE: return selectOf(r);
			case K_UTILITARIAN: return pickUtilitarian(r, kind);
			case K_RANDOM: return pickRandom(r, kind, commit);
			}
		}
		return 0;
	}

	// ---- one request ----------------------------------------------------------------------------
	void resolve(int s, int kind) {	 // s is entered or re-targeted and has no entry yet: choose by kind, recursively
		if (!E::isRegion(s)) return;
		if (E::isOrtho(s)) { for (int p = 0; p < E::D(s).width; ++p) resolve(E::child(s, p), kind); return; }
		const int c = pick(s, kind, true);
		if ((kind == T_SELECT || (kind == T_CHANGE && E::D(s).kind == K_SELECTABLE)) && E::isRegion(E::child(s, c))) usedSelectOnRegion = true;
		P[s] = c;
		touched[s] = 1;
		resolve(E::child(s, c), kind);
	}
	void follow(int s, int kind) {	// inside a re-targeted sub-tree: keep existing entries, resolve the rest
		if (!E::isRegion(s)) return;
		if (E::isOrtho(s)) {
			// an orthogonal region none of whose sub-states lies on a request path is resolved as a whole
			bool any = false;
			for (int p = 0; p < E::D(s).width; ++p) any = any || obit[E::child(s, p)];
			for (int p = 0; p < E::D(s).width; ++p) { if (any) follow(E::child(s, p), kind); else resolve(E::child(s, p), kind); }
			return;
		}
		if (P[s] >= 0) follow(E::child(s, P[s]), kind);
		else if (path[s] >= 0 && act[s] == path[s]) { P[s] = path[s]; follow(E::child(s, P[s]), kind); }	// an earlier request's path is kept
		else resolve(s, kind);
	}
	void walkActive(int s, int kind) {	// from the root along untouched active regions down to the re-targeted sub-tree
		if (!E::isRegion(s)) return;
		if (E::isOrtho(s)) {
			for (int p = 0; p < E::D(s).width; ++p) if (obit[E::child(s, p)]) walkActive(E::child(s, p), kind);
			return;
		}
		if (P[s] < 0) { if (act[s] >= 0) walkActive(E::child(s, act[s]), kind); }
		else follow(E::child(s, P[s]), kind);
	}

	void request(int kind, int d) {
		if (kind == T_SCHEDULE) {
			const int par = E::D(d).parent;
			if (par >= 0 && E::isCompo(par)) { res[par] = E::D(d).prong; left[par] = E::D(d).prong; }
			return;
		}
		if (d == 0) {
			if (E::isOrtho(0)) { for (int p = 0; p < E::D(0).width; ++p) { obit[E::child(0, p)] = 1; resolve(E::child(0, p), kind); } }
			else { P[0] = -1; resolve(0, kind); }
			return;
		}
		// path part: the destination and all its ancestors will be active
		bool first = true;
		for (int s = d; E::D(s).parent >= 0; s = E::D(s).parent) {
			const int a = E::D(s).parent;
			if (E::isOrtho(a)) { obit[s] = 1; continue; }
			const int pr = E::D(s).prong;
			path[a] = pr;
			if (first) { P[a] = pr; touched[a] = 1; first = false; }
			else if ((P[a] >= 0 && P[a] != pr) || act[a] != pr) { P[a] = pr; touched[a] = 1; }
		}
		// resolution part
		if (E::isOrtho(0)) { for (int p = 0; p < E::D(0).width; ++p) if (obit[E::child(0, p)]) walkActive(E::child(0, p), kind); }
		else walkActive(0, kind);
	}

	// ---- commit ---------------------------------------------------------------------------------
	void exitSub(int s) {
		if (!E::isRegion(s)) return;
		if (E::isOrtho(s)) { for (int p = 0; p < E::D(s).width; ++p) exitSub(E::child(s, p)); return; }
		if (act[s] >= 0) { exitSub(E::child(s, act[s])); left[s] = act[s]; }
		act2[s] = -1;
	}
	void enterSub(int s) {
		if (!E::isRegion(s)) return;
		if (E::isOrtho(s)) { for (int p = 0; p < E::D(s).width; ++p) enterSub(E::child(s, p)); return; }
		if (P[s] < 0) { unresolved = true; P[s] = 0; }
		act2[s] = P[s];
		enterSub(E::child(s, P[s]));
	}
	void reSub(int s) {	 // s stays active inside a re-targeted sub-tree
		if (!E::isRegion(s)) return;
		if (E::isOrtho(s)) { for (int p = 0; p < E::D(s).width; ++p) reSub(E::child(s, p)); return; }
		if (P[s] < 0 || P[s] == act[s]) { if (act[s] >= 0) reSub(E::child(s, act[s])); }
		else { exitSub(E::child(s, act[s])); left[s] = act[s]; act2[s] = P[s]; enterSub(E::child(s, P[s])); }
	}
	void commitActive(int s) {
		if (!E::isRegion(s)) return;
		if (E::isOrtho(s)) { for (int p = 0; p < E::D(s).width; ++p) commitActive(E::child(s, p)); return; }
		if (P[s] < 0) { if (act[s] >= 0) commitActive(E::child(s, act[s])); }
		else if (P[s] != act[s]) { if (act[s] >= 0) { exitSub(E::child(s, act[s])); left[s] = act[s]; } act2[s] = P[s]; enterSub(E::child(s, P[s])); }
		else reSub(E::child(s, act[s]));
	}
	void commit() { act2 = act; commitActive(0); }

	bool activeAfter(int s) const {
		for (int t = s; E::D(t).parent >= 0; t = E::D(t).parent) {
			const int a = E::D(t).parent;
			if (E::isCompo(a) && act2[a] != E::D(t).prong) return false;
		}
		return true;
	}
};

}  // namespace vt
