// Engine part 4: property monitors that plug into the explorer.
#pragma once
#include <sys/wait.h>
#include <unistd.h>
#include "engine/refmodel.hpp"

namespace vt {

template <typename FSM>
unsigned Explorer<FSM>::propsFromString(const std::string& p) {
	unsigned m = 0;
	std::stringstream ss(p);
	std::string t;
	while (std::getline(ss, t, ',')) {
		if (t == "C01") m |= P_C01; else if (t == "C02") m |= P_C02; else if (t == "C03") m |= P_C03; else if (t == "C04") m |= P_C04;
		else if (t == "C05") m |= P_C05; else if (t == "C06") m |= P_C06; else if (t == "C08") m |= P_C08; else if (t == "C09") m |= P_C09;
		else if (t == "C10") m |= P_C10; else if (t == "C11") m |= P_C11; else if (t == "C13") m |= P_C13; else if (t == "C14") m |= P_C14;
		else if (t == "C15") m |= P_C15; else if (t == "C16") m |= P_C16;
	}
	return m;
}

// the independent descriptor must agree with what the library registered at construction (run-time half of C17;
// a mismatch here would make every other oracle meaningless, so it is checked before any exploration)
template <typename FSM>
bool Explorer<FSM>::selfCheck() {
	Runner r;
	Step c; c.op.type = OP_CONSTRUCT;
	r.env.monitoring = false;
	r.apply(c, 0);
	const auto& reg = r.fsm->_core.registry;
	bool ok = true;
	auto bad = [&](const std::string& what) {
		ok = false;
		E::R().violation("C17", "runtime/" + what, "descriptor mismatch: " + what, History{c});
	};
	if ((int) FSM::Instance::STATE_COUNT != VT_COUNTS.states) bad("STATE_COUNT");
	if ((int) FSM::Instance::REGION_COUNT != VT_COUNTS.regions) bad("REGION_COUNT");
	if ((int) FSM::Args::COMPO_COUNT != VT_COUNTS.compo) bad("COMPO_COUNT");
	if ((int) FSM::Args::ORTHO_COUNT != VT_COUNTS.ortho) bad("ORTHO_COUNT");
	if ((int) FSM::Args::ORTHO_UNITS != VT_COUNTS.units) bad("ORTHO_UNITS");
	for (int s = 0; s < N && ok; ++s) {
		const auto par = reg.stateParents[s];
		const StateDesc& d = E::D(s);
		if (d.parent < 0) { if (par) bad("root-parent"); continue; }
		const StateDesc& pd = E::D(d.parent);
		const int fork = pd.kind == K_ORTHO ? -(pd.ortho + 1) : (pd.compo + 1);
		if ((int) par.forkId != fork || (int) par.prong != d.prong) bad("stateParents[" + str(s) + "]");
	}
	for (int s = 0; s < N && ok; ++s) {
		const StateDesc& d = E::D(s);
		if (d.region < 0) continue;
		if ((int) reg.regionHeads[d.region] != s) bad("regionHeads[" + str(d.region) + "]");
		if ((int) reg.regionSizes[d.region] != d.size) bad("regionSizes[" + str(d.region) + "]");
	}
	return ok;
}

template <typename FSM>
int Explorer<FSM>::replay(const std::string& enc) {
	// enc: steps separated by ';'
	History h;
	std::stringstream ss(enc);
	std::string part;
	while (std::getline(ss, part, ';')) { Step s; if (!Step::decode(part, s)) { fprintf(stderr, "bad replay step '%s'\n", part.c_str()); return 2; } h.push_back(s); }
	if (h.empty()) return 2;
	Node node{History(h.begin(), h.end() - 1), "", (int) h.size() - 1, false};
	bool act = false;
	for (const Step& s : node.hist) act = activationAfter(act, s.op);
	node.activated = act;
	Exec x;
	for (int round = 0; round < 2; ++round) {
		Exec y;
		run(node, h.back(), y);
		process(node, y);
		if (round == 0) x = y;
		else if (y.keyAfter != x.keyAfter || y.trace.size() != x.trace.size()) { printf("{\"type\":\"engine_error\",\"message\":\"replay is not deterministic\"}\n"); return 2; }
	}
	printf("history: %s\n", historyJson(h).c_str());
	printf("state before: %s\nstate after : %s\n", x.keyBefore.c_str(), x.keyAfter.c_str());
	printf("step trace  : %s\n", E::traceText(x.trace, x.stepBegin, 400).c_str());
	printf("active after:");
	for (int s = 0; s < N; ++s) if (x.after.active[s]) printf(" S%d", s);
	printf("\nresumable   :");
	for (int s = 0; s < N; ++s) if (x.after.resumable[s]) printf(" S%d", s);
	printf("\nviolations reported: %ld\n", E::R().total);
	return E::R().total ? 1 : 0;
}

#if VT_HAS_PAYLOAD
// ---- C14: payloads reach the states they activate unchanged -----------------------------------------------------------
template <typename FSM>
template <typename TTransition>
bool Explorer<FSM>::payloadOk(const TTransition& t, const Env& e, const std::string& where) {
	const Pay* p = t.payload();
	const int kind = Runner::kindOf(t.type);
	const int origin = t.origin == hfsm2::INVALID_STATE_ID ? -1 : (int) t.origin;
	++counters["c14_transitions_inspected"];
	auto fail = [&](const std::string& fp, const std::string& msg) {
		if (cur) violation("C14", fp, where + ": transition " + (kind >= 0 ? KIND_NAMES[kind] : "?") + "(" + str((int) t.destination) + ") from S" + str(origin) + ": " + msg, *cur);
		return false;
	};
	if (p) {
		if (reinterpret_cast<uintptr_t>(p) % alignof(Pay) != 0) return fail("payload/misaligned", "payload() is not aligned for the payload type");
		const int tag = payTag(*p);
		if (tag == -777) return fail("payload/corrupted", "the payload value is not one the environment ever attached");
		for (size_t i = e.trace.size(); i-- > 0;) {
			const TraceEv& ev = e.trace[i];
			if (ev.meth == E_REQUEST && ev.c == tag) {
				if (ev.b != (int) t.destination || ev.a != kind || ev.state != origin) return fail("payload/mixed-up", "carries the payload that was attached to " + std::string(KIND_NAMES[ev.a]) + "(" + str(ev.b) + ") from S" + str(ev.state));
				return true;
			}
			if (ev.meth == E_PLAN_APPEND && ev.ctl == tag) {
				if (ev.c != (int) t.destination) return fail("payload/mixed-up-task", "carries the payload of the plan task " + str(ev.b) + "->" + str(ev.c));
				return true;
			}
		}
		return fail("payload/unknown", "carries payload tag " + str(tag) + " that no request or task of this instance was given");
	}
	// no payload: some payload-less request / task with this destination must exist
	for (size_t i = e.trace.size(); i-- > 0;) {
		const TraceEv& ev = e.trace[i];
		if (ev.meth == E_REQUEST && ev.c == -1 && ev.b == (int) t.destination && ev.a == kind && ev.state == origin) return true;
		if (ev.meth == E_PLAN_APPEND && ev.ctl == -1 && ev.c == (int) t.destination) return true;
	}
	return fail("payload/lost", "exposes no payload although every request with this origin, kind and destination carried one");
}
#endif

template <typename FSM> void Explorer<FSM>::inCallbackMore(int kind, int state, int meth, void* control) {
#if VT_HAS_PAYLOAD
	if ((props & P_C14) && cur) {
		const std::string where = "inside S" + str(state) + "." + METH_NAMES[meth];
		if (kind == E::CB_GUARD) {
			auto& c = *static_cast<typename E::GuardControl*>(control);
			const Env& e = *c.context();
			for (unsigned i = 0; i < c.pendingTransitions().count(); ++i) if (!payloadOk(c.pendingTransitions()[i], e, where + " pendingTransitions()[" + str(i) + "]")) break;
			for (unsigned i = 0; i < c.currentTransitions().count(); ++i) if (!payloadOk(c.currentTransitions()[i], e, where + " currentTransitions()[" + str(i) + "]")) break;
		} else if (kind == E::CB_LIFE) {
			auto& c = *static_cast<typename E::PlanControl*>(control);
			const Env& e = *c.context();
			for (unsigned i = 0; i < c.currentTransitions().count(); ++i) if (!payloadOk(c.currentTransitions()[i], e, where + " currentTransitions()[" + str(i) + "]")) break;
#if VT_HISTORY
			if (meth == M_ENTER && cur->step.op.type != OP_RESET) {
				// the transition that activates this state is visible while it is being entered
				++counters["c14_enter_views"];
			}
#endif
		} else if (kind == E::CB_FULL || kind == E::CB_EVENT) {
#if VT_HISTORY
			auto& c = *static_cast<typename E::FullControl*>(control);
			const Env& e = *c.context();
			if (const auto* t = c.lastTransition()) payloadOk(*t, e, where + " lastTransition()");
			for (unsigned i = 0; i < c.previousTransitions().count(); ++i) if (!payloadOk(c.previousTransitions()[i], e, where + " previousTransitions()[" + str(i) + "]")) break;
#endif
		}
	}
#endif
	if ((props & P_C13) && kind == E::CB_GUARD && cur && cur->step.script.empty() && cur->step.op.type == OP_IMMEDIATE) {
		auto& c = *static_cast<typename E::GuardControl*>(control);
		if (c.currentTransitions().count() == 0 && !c._cancelled && guardSnaps.size() < 64) {
			GuardSnap g; g.state = state; g.meth = meth; g.bits.assign(N, 0);
			for (int ci = 0; ci < VT_COUNTS.compo; ++ci) g.req.push_back(c._core.registry.compoRequested[ci] == hfsm2::INVALID_PRONG ? -1 : (int) c._core.registry.compoRequested[ci]);
			for (int s = 0; s < N; ++s) g.bits[s] = (uint8_t) ((c.isPendingEnter((hfsm2::StateID) s) ? 1 : 0) | (c.isPendingExit((hfsm2::StateID) s) ? 2 : 0) | (c.isPendingChange((hfsm2::StateID) s) ? 4 : 0));
			guardSnaps.push_back(g);
		}
	}
}
template <typename FSM> void Explorer<FSM>::liveChecks(Runner& r, Exec& x) {
#if VT_HISTORY
	if (props & P_C09) checkC09(r, x);
#endif
#if VT_HAS_PAYLOAD && VT_HISTORY
	if ((props & P_C14) && x.activatedAfter) {
		const auto& pt = r.fsm->previousTransitions();
		for (unsigned i = 0; i < pt.count(); ++i) if (!payloadOk(pt[i], r.env, "previousTransitions()[" + str(i) + "] after " + x.step.op.text())) break;
		for (int s = 0; s < N; ++s) if (const auto* t = r.fsm->lastTransitionTo((hfsm2::StateID) s)) if (!payloadOk(*t, r.env, "lastTransitionTo(S" + str(s) + ") after " + x.step.op.text())) break;
		// the states activated by a transition read exactly its payload afterwards - not the payload of another request of the step
		for (size_t i = x.stepBegin; i < x.stepEnd; ++i) {
			const TraceEv& e = x.trace[i];
			if (e.meth != M_ENTER || e.layer != 0) continue;
			const auto* t = r.fsm->lastTransitionTo((hfsm2::StateID) e.state);
			if (t && !requestReaches(e.state, (int) t->destination)) {
				const Pay* p = t->payload();
				violation("C14", x.before.active.size() && x.before.active[e.state] ? "payload/stale-last-transition-after-reenter" : "payload/last-transition-of-another-request", "S" + str(e.state) + " was entered in this step, yet lastTransitionTo(S" + str(e.state) + ") exposes the request to S" + str((int) t->destination) +
						  (p ? " with payload tag " + str(payTag(*p)) : std::string(" without payload")) + ", which cannot have activated it (payloads of different requests of one step are mixed up)", x);
				break;
			}
		}
		// a single approved request: every state it activated reads exactly that transition (and so its payload) afterwards
		{
			int nreq = 0, rq = -1; bool cancelled = false, initialStep = x.step.op.type == OP_CONSTRUCT || x.step.op.type == OP_ENTER || x.step.op.type == OP_RESET;
			for (size_t i = x.stepBegin; i < x.stepEnd; ++i) {
				const TraceEv& e = x.trace[i];
				if (e.meth == E_REQUEST) { ++nreq; rq = (int) i; }
				if (e.meth == E_CANCEL || e.meth == E_SUCCEED || e.meth == E_FAIL || e.meth == M_PLAN_SUCCEEDED || e.meth == M_PLAN_FAILED || e.meth == E_PLAN_APPEND) cancelled = true;
			}
			if (nreq == 1 && !cancelled && !initialStep && pt.count() == 0 && x.activatedBefore && x.trace[rq].a != T_SCHEDULE && x.trace[rq].a != T_UTILIZE && x.trace[rq].a != T_RANDOMIZE) {
				// the request was applied (something was entered because of it) but its transition - and the payload with it - was not recorded
				bool enteredNew = false;
				for (size_t i = (size_t) rq; i < x.stepEnd; ++i) if (x.trace[i].meth == M_ENTER && x.trace[i].layer == 0 && !(x.before.active.size() && x.before.active[x.trace[i].state])) enteredNew = true;
				if (enteredNew && (int) FSM::Instance::TransitionSets::CAPACITY >= 1)
					violation("C14", "payload/transition-not-recorded", "the single request " + std::string(KIND_NAMES[x.trace[rq].a]) + "(" + str(x.trace[rq].b) + ")" + (x.trace[rq].c >= 0 ? " carrying payload tag " + str(x.trace[rq].c) : std::string("")) +
							  " activated states, yet previousTransitions() is empty: no state can read the transition or its payload afterwards", x);
			}
			if (nreq == 1 && !cancelled && !initialStep && pt.count() == 1 && x.activatedBefore) {
				const TraceEv& q = x.trace[rq];
				const int k = q.a;
				bool viaReport = k == T_UTILIZE || k == T_RANDOMIZE || k == T_SCHEDULE;
				if ((int) pt[0].destination == q.b && Runner::kindOf(pt[0].type) == k && !viaReport)
					for (size_t i = x.stepBegin; i < x.stepEnd; ++i) {
						const TraceEv& e = x.trace[i];
						if (e.meth != M_ENTER || e.layer != 0 || (x.before.active.size() && x.before.active[e.state])) continue;
						bool report = false;   // known finding (C09): states chosen through a utility / random report carry no request index
						if (k == T_CHANGE) for (int t = E::D(e.state).parent; t >= 0; t = E::D(t).parent) if (E::D(t).kind == K_UTILITARIAN || E::D(t).kind == K_RANDOM) report = true;
						if (report) continue;
						++counters["c14_entered_state_views"];
						if (r.fsm->lastTransitionTo((hfsm2::StateID) e.state) != &pt[0]) {
							violation("C14", "payload/entered-state-cannot-read-it", "S" + str(e.state) + " was activated by the single request " + std::string(KIND_NAMES[k]) + "(" + str(q.b) + ")" + (q.c >= 0 ? " carrying payload tag " + str(q.c) : std::string("")) +
									  ", yet lastTransitionTo(S" + str(e.state) + ") does not return that transition", x);
							break;
						}
					}
			}
		}
		++compared;
	}
#endif
#if VT_STRUCT
	if (props & P_C16) {
		const auto& st = r.fsm->structure();
		const auto& ah = r.fsm->activityHistory();
		x.activityAfter.assign(N, 0);
		for (int s = 0; s < N; ++s) x.activityAfter[s] = ah[s];
		const Op& op = x.step.op;
		if (op.type != OP_CONSTRUCT || !E::MANUAL)	// a manual machine that was never entered has no report yet
			for (int s = 0; s < N; ++s) {
				const bool act = r.fsm->isActive((hfsm2::StateID) s);
				if (st[s].isActive != act) { violation("C16", op.type == OP_RESET ? "structure/stale-after-reset" : "structure/is-active", "after " + op.text() + " structure()[" + str(s) + "].isActive=" + (st[s].isActive ? "true" : "false") + " but isActive(S" + str(s) + ")=" + (act ? "true" : "false"), x); break; }
				if ((act && ah[s] <= 0) || (!act && ah[s] >= 0)) { violation("C16", op.type == OP_RESET ? "structure/stale-after-reset" : "activity/sign", "after " + op.text() + " activityHistory()[" + str(s) + "]=" + str((int) ah[s]) + " for an " + (act ? "active" : "inactive") + " state", x); break; }
			}
	}
#endif
	pendingQuiescent.clear();
	if ((props & P_C13) && x.activatedAfter) {
		pendingQuiescent.assign(N, 0);
		for (int s = 0; s < N; ++s)
			pendingQuiescent[s] = (uint8_t) ((r.fsm->isPendingEnter((hfsm2::StateID) s) ? 1 : 0) | (r.fsm->isPendingExit((hfsm2::StateID) s) ? 2 : 0) | (r.fsm->isPendingChange((hfsm2::StateID) s) ? 4 : 0));
	}
}
template <typename FSM> void Explorer<FSM>::afterExec(const Node& node, Exec& x) {
	if (props & P_C02) checkC02(node, x);
	if (props & P_C05) checkC05(node, x);
	if (props & P_C04) checkC04(node, x);
	if (props & P_C13) checkC13(node, x);
#if VT_PLANS && VT_LOG
	if (props & P_C06) checkC06(node, x);
#endif
#if VT_LOG
	if (props & P_C16) checkC16(node, x);
#endif
	if (props & P_C11) checkC11(node, x);
}

// ---- C11: capacity alphabets - excess is rejected without corrupting state -------------------------------------------
template <typename FSM>
void Explorer<FSM>::checkC11(const Node& node, Exec& x) {
	const Op& op = x.step.op;
	++compared;
	if (op.type == OP_BURST && (int) op.n > VT_COUNTS.compo) {
		// the state after an over-full burst equals the state after the accepted prefix
		Op ref = op; ref.n = (uint8_t) VT_COUNTS.compo;
		Exec y;
		Exec* saved = cur; const unsigned sp = props; props = 0;
		run(node, Step{ref, x.step.script}, y);	 // same environment answers / callback decisions as the over-full run
		props = sp; cur = saved; --transitions;
		++counters["c11_overfull_bursts"];
		if (y.keyAfter != x.keyAfter || y.after.active != x.after.active || y.after.resumable != x.after.resumable)
			violation("C11", "overflow/burst-changes-outcome", op.text() + ": the outcome (" + x.keyAfter + ") differs from the outcome of the first " + str(VT_COUNTS.compo) + " requests alone (" + y.keyAfter + "): excess requests were not simply rejected", x);
	}
#if VT_PLANS
	if (op.type == OP_PLAN_FLOOD) {
		int total = 0, mine = 0;
		for (int r = 0; r < VT_COUNTS.regions; ++r) total += (int) x.after.plans[r].size();
		int before = 0;
		for (int r = 0; r < VT_COUNTS.regions; ++r) before += (int) x.before.plans[r].size();
		mine = total - before;
		const int room = (int) FSM::Instance::TASK_CAPACITY - before;
		int accepted = -1;
		for (size_t i = x.stepBegin; i < x.stepEnd; ++i) if (x.trace[i].meth == E_PLAN_APPEND) accepted = x.trace[i].c;
		++counters["c11_plan_floods"];
		if (accepted != std::min((int) op.n, room) || mine != accepted)
			violation("C11", "overflow/plan-append", op.text() + ": " + str(accepted) + " appends reported success, " + str(mine) + " tasks were stored, capacity left was " + str(room), x);
	}
#endif
}

#if VT_LOG
// ---- C16: the logger mirrors what the machine does ---------------------------------------------------------------------
template <typename FSM>
void Explorer<FSM>::checkC16(const Node&, Exec& x) {
	// index the log entries of this step by the trace position at which they were written
	std::multimap<size_t, const typename E::LogEv*> at;
	for (const auto& l : x.log) if (l.at >= x.stepBegin && l.at <= x.stepEnd) at.insert({l.at, &l});
	auto count = [&](size_t pos, int type, std::function<bool(const typename E::LogEv&)> pred) {
		int n = 0;
		auto r = at.equal_range(pos);
		for (auto it = r.first; it != r.second; ++it) if (it->second->type == type && pred(*it->second)) ++n;
		return n;
	};
	++compared;
	std::set<const typename E::LogEv*> explained;
	auto mark = [&](size_t pos, int type, std::function<bool(const typename E::LogEv&)> pred) {
		auto r = at.equal_range(pos);
		for (auto it = r.first; it != r.second; ++it) if (it->second->type == type && pred(*it->second)) { explained.insert(it->second); return; }
	};
	for (size_t i = x.stepBegin; i < x.stepEnd; ++i) {
		const TraceEv& e = x.trace[i];
		if (e.layer) continue;
		if (e.meth <= M_PLAN_FAILED && e.state >= 0) {
			// every user-defined callback the machine invokes is reported exactly once, just before it runs
			auto pr = [&](const typename E::LogEv& l) { return l.a == e.state && l.b == (int) e.meth + 1; };
			// handlers of injected bases that run before the own handler come between the report and the own handler
			size_t i0 = i;
			while (i0 > x.stepBegin && x.trace[i0 - 1].state == e.state && x.trace[i0 - 1].meth == e.meth && x.trace[i0 - 1].layer > 0) --i0;
			const int n = count(i0, E::L_METHOD, pr);
			if (n != 1) { violation("C16", n == 0 ? "method/not-logged" : "method/logged-twice", std::string("S") + str(e.state) + "." + METH_NAMES[e.meth] + " was invoked but recordMethod() was called " + str(n) + " times for it", x); return; }
			mark(i0, E::L_METHOD, pr);
			if (e.meth == M_SELECT) {
				auto ps = [&](const typename E::LogEv& l) { return l.a == e.state && l.b == e.a; };
				if (count(i + 1, E::L_SELECT_RES, ps) != 1) { violation("C16", "resolution/select", "select() of S" + str(e.state) + " answered " + str(e.a) + " but no matching recordSelectResolution() followed", x); return; }
				mark(i + 1, E::L_SELECT_RES, ps);
			}
#if VT_PLANS
			if (e.meth == M_PLAN_SUCCEEDED || e.meth == M_PLAN_FAILED) {
				auto pp = [&](const typename E::LogEv& l) { return l.a == e.state && l.b == (e.meth == M_PLAN_SUCCEEDED ? 0 : 1); };
				if (count(i, E::L_PLAN_STATUS, pp) != 1) { violation("C16", "status/plan", std::string(METH_NAMES[e.meth]) + "(S" + str(e.state) + ") was delivered without exactly one recordPlanStatus()", x); return; }
				mark(i, E::L_PLAN_STATUS, pp);
			}
#endif
		} else if (e.meth == E_REQUEST) {
			auto pt = [&](const typename E::LogEv& l) { return (l.a == (int) hfsm2::INVALID_STATE_ID ? -1 : l.a) == e.state && Runner::kindOf((hfsm2::TransitionType) l.b) == e.a && l.c == e.b; };
			const int n = count(i + 1, E::L_TRANSITION, pt);
			if (n != 1) { violation("C16", n == 0 ? "transition/not-logged" : "transition/logged-twice", std::string("request ") + KIND_NAMES[e.a] + "(" + str(e.b) + ") from S" + str(e.state) + " was reported " + str(n) + " times", x); return; }
			mark(i + 1, E::L_TRANSITION, pt);
		} else if (e.meth == E_CANCEL) {
			auto pc = [&](const typename E::LogEv& l) { return l.a == e.state; };
			if (count(i + 1, E::L_CANCEL, pc) != 1) { violation("C16", "cancel/not-logged-once", "cancelPendingTransitions() in S" + str(e.state) + " was not reported exactly once", x); return; }
			mark(i + 1, E::L_CANCEL, pc);
		}
#if VT_PLANS
		else if ((e.meth == E_SUCCEED || e.meth == E_FAIL)) {
			const int st = e.state >= 0 ? e.state : e.a;  // external: state in a
			auto ps = [&](const typename E::LogEv& l) { return l.b == st && l.c == (e.meth == E_SUCCEED ? 0 : 1); };
			if (st > 0 && count(i + 1, E::L_TASK_STATUS, ps) != 1) { violation("C16", "status/task", std::string(e.meth == E_SUCCEED ? "succeed" : "fail") + "(S" + str(st) + ") was not reported exactly once", x); return; }
			mark(i + 1, E::L_TASK_STATUS, ps);
		}
#endif
	}
	// nothing is reported that did not happen
	for (const auto& l : x.log) {
		if (l.at < x.stepBegin || l.at > x.stepEnd || explained.count(&l)) continue;
		if (l.type == E::L_METHOD) {
			const int st = l.a;
			// methods the state does not override (anonymous heads, lite probes): verbose mode reports them all, interface mode
			// reports the templated react/query family regardless - tolerated, only counted
			if (st >= 0 && st < N && (!E::named(st) || E::D(st).lite)) { ++counters["c16_reports_for_methods_not_overridden"]; continue; }
			violation("C16", "method/logged-but-not-invoked", "recordMethod(S" + str(st) + ", " + hfsm2::methodName((hfsm2::Method) l.b) + ") without a matching callback invocation", x);
			return;
		}
		if (l.type == E::L_TRANSITION) {
			// requests the library issues itself come from plan executions: the origin must be a region head
			const int o = l.a == (int) hfsm2::INVALID_STATE_ID ? -1 : l.a;
			if (o >= 0 && o < N && E::isRegion(o)) continue;
			violation("C16", "transition/logged-but-not-issued", "recordTransition(origin S" + str(o) + ", target S" + str(l.c) + ") without a matching request", x);
			return;
		}
		if (l.type == E::L_CANCEL) { violation("C16", "cancel/logged-but-not-issued", "recordCancelledPending without a cancel", x); return; }
	}
#if VT_UTILITY
	// random resolution reports the generator output that was drawn; utility resolution names a valid prong
	for (const auto& l : x.log) {
		if (l.at < x.stepBegin || l.at > x.stepEnd) continue;
		if (l.type == E::L_RANDOM_RES || l.type == E::L_UTILITY_RES) {
			if (l.a >= 0 && l.a < N && E::isOrtho(l.a)) continue;  // an orthogonal region reports its mean utility, no prong
			if (l.a < 0 || l.a >= N || !E::isCompo(l.a) || l.b < 0 || l.b >= E::D(l.a).width) { violation("C16", "resolution/bad-prong", "utility/random resolution reported for S" + str(l.a) + " with prong " + str(l.b), x); return; }
#if VT_USE_SCRIPT_RNG
			if (l.type == E::L_RANDOM_RES) {
				int alt = 0;
				for (const Choice& c : x.step.script) if (c.key.meth == E_RNG) alt = c.alt;
				if (l.u != RNG_MENU[alt]) { violation("C16", "resolution/random-value", "recordRandomResolution reported " + str(l.u) + " but the generator returned " + str(RNG_MENU[alt]), x); return; }
			}
#endif
		}
	}
#endif
}
#endif

#if VT_PLANS && VT_LOG
// ---- C06: plans run tasks in order and report success / failure to the region head -------------------------------
template <typename FSM>
void Explorer<FSM>::checkC06(const Node&, Exec& x) {
	const Op& op = x.step.op;
	if (!x.activatedBefore || !x.activatedAfter) return;
	const bool stepping = op.type == OP_UPDATE || op.type == OP_REACT || op.type == OP_BATCH;
	// success / failure marks never survive the step that consumed them or the exit of their state
	if (stepping)
		for (int s = 1; s < N; ++s)
			if (x.after.succMark[s] || x.after.failMark[s]) { violation("C06", "marks/survive-step", "the " + std::string(x.after.succMark[s] ? "success" : "failure") + " mark of S" + str(s) + " survived " + op.text(), x); return; }
	for (size_t i = x.stepBegin; i < x.stepEnd; ++i) {
		const TraceEv& e = x.trace[i];
		if (e.meth == M_EXIT && e.layer == 0 && !x.after.active[e.state] && (x.after.succMark[e.state] || x.after.failMark[e.state])) { violation("C06", "marks/survive-exit", "a mark of S" + str(e.state) + " survived its exit", x); return; }
	}
	if (!stepping) return;
	// requests issued by the library itself (plan executions) = logged transitions that the environment did not issue
	struct Exe { int head, kind, dest; size_t at; };
	std::vector<Exe> exes;
	for (const auto& l : x.log) {
		if (l.type != E::L_TRANSITION || l.at <= x.stepBegin || l.at > x.stepEnd) continue;
		const TraceEv& prev = x.trace[l.at - 1];
		const int origin = l.a == (int) hfsm2::INVALID_STATE_ID ? -1 : l.a;
		const int kind = Runner::kindOf((hfsm2::TransitionType) l.b);
		if (prev.meth == E_REQUEST && prev.state == origin && prev.a == kind && prev.b == l.c) continue;
		exes.push_back(Exe{origin, kind, l.c, l.at});
	}
	bool anyPlan = !exes.empty();
	for (int r = 0; r < VT_COUNTS.regions; ++r) if (x.before.planExists[r]) anyPlan = true;
	bool planEvents = false;
	for (size_t i = x.stepBegin; i < x.stepEnd; ++i) { const int m = x.trace[i].meth; if (m == E_PLAN_APPEND || m == E_PLAN_CLEAR || m == E_SUCCEED || m == E_FAIL || m == M_PLAN_SUCCEEDED || m == M_PLAN_FAILED) planEvents = true; }
	for (int s = 1; s < N; ++s) if (x.before.succMark[s] || x.before.failMark[s]) planEvents = true;
	if (!anyPlan && !planEvents) return;
	++compared;
	++counters["c06_steps_judged"];
	// region id -> head state
	std::vector<int> headOf(VT_COUNTS.regions, -1);
	for (int s = 0; s < N; ++s) if (E::D(s).region >= 0) headOf[E::D(s).region] = s;
	// success / failure sets of the step (own handlers, external marks pending from before, default propagation)
	struct Mark { int state; bool succ; bool propagated; size_t at; };
	std::vector<Mark> marks;
	for (int s = 1; s < N; ++s) { if (x.before.succMark[s]) marks.push_back(Mark{s, true, false, x.stepBegin}); if (x.before.failMark[s]) marks.push_back(Mark{s, false, false, x.stepBegin}); }
	for (size_t i = x.stepBegin; i < x.stepEnd; ++i) {
		const TraceEv& e = x.trace[i];
		if ((e.meth == E_SUCCEED || e.meth == E_FAIL) && e.state >= 0) marks.push_back(Mark{e.state, e.meth == E_SUCCEED, e.a == 1, i});
	}
	auto succeededBefore = [&](int s, size_t at) { for (const Mark& m : marks) if (m.state == s && m.succ && m.at < at) return true; return false; };
	// model of the plans during the step: start from the snapshot, apply the environment's edits in trace order
	std::vector<std::vector<Snap::TaskInfo>> model = x.before.plans;
	std::vector<uint8_t> exists = x.before.planExists;
	size_t cursor = x.stepBegin;
	auto applyEditsUpTo = [&](size_t at) {
		for (; cursor < at && cursor < x.stepEnd; ++cursor) {
			const TraceEv& e = x.trace[cursor];
			if (e.meth == E_PLAN_APPEND && (e.d & 1)) { model[e.d / 2].push_back(Snap::TaskInfo{e.b, e.c, e.a, -1, e.ctl >= 0, e.ctl}); exists[e.d / 2] = 1; }
			else if (e.meth == E_PLAN_APPEND) exists[e.d / 2] = 1;
			else if (e.meth == E_PLAN_CLEAR) model[e.d].clear();
		}
	};
	// ---- safety: every execution is justified by a task
	std::vector<std::vector<Snap::TaskInfo>> executed(VT_COUNTS.regions);
	for (const Exe& ex : exes) {
		applyEditsUpTo(ex.at);
		if (ex.head < 0 || E::D(ex.head).region < 0) { violation("C06", "task/request-not-from-a-region-head", "the library issued " + std::string(KIND_NAMES[ex.kind < 0 ? 0 : ex.kind]) + "(" + str(ex.dest) + ") on behalf of S" + str(ex.head) + ", which is not a region head", x); return; }
		const int R = E::D(ex.head).region;
		std::vector<Snap::TaskInfo>& plan = model[R];
		// the executor walks the plan in order while origins are active and takes every task whose origin reported success
		int found = -1; std::string why = "no task of that plan leads to S" + str(ex.dest);
		for (size_t i = 0; i < plan.size(); ++i) {
			const Snap::TaskInfo& t = plan[i];
			if (!x.before.active[t.origin]) { why = "the only matching tasks come after a task whose origin S" + str(t.origin) + " is inactive"; break; }
			if (t.dest != ex.dest) continue;
			if (!succeededBefore(t.origin, ex.at)) { why = "origin S" + str(t.origin) + " of the matching task did not report success in this step"; continue; }
			found = (int) i; break;
		}
		if (found < 0) {
			violation("C06", "task/unjustified-execution", "plan of region S" + str(ex.head) + ": " + KIND_NAMES[ex.kind < 0 ? 0 : ex.kind] + "(" + str(ex.dest) + ") was requested on behalf of the head, but " + why, x);
			return;
		}
		if (plan[found].kind != ex.kind)
			violation("C06", "task/wrong-kind", "plan of region S" + str(ex.head) + ": task S" + str(plan[found].origin) + "->S" + str(plan[found].dest) + " was created as " + KIND_NAMES[plan[found].kind] + " but " +
					  KIND_NAMES[ex.kind < 0 ? 0 : ex.kind] + "(" + str(ex.dest) + ") was requested", x);
		executed[R].push_back(plan[found]);
		plan.erase(plan.begin() + found);
	}
	applyEditsUpTo(x.stepEnd);
	// executed tasks are gone afterwards (never twice)
	for (int R = 0; R < VT_COUNTS.regions; ++R)
		for (const Snap::TaskInfo& t : executed[R]) {
			int after = 0, expect = 0;
			for (const Snap::TaskInfo& u : x.after.plans[R]) if (u.origin == t.origin && u.dest == t.dest && u.kind == t.kind) ++after;
			for (const Snap::TaskInfo& u : model[R]) if (u.origin == t.origin && u.dest == t.dest && u.kind == t.kind) ++expect;
			if (after > expect) { violation("C06", "task/not-removed", "task S" + str(t.origin) + "->S" + str(t.dest) + " of region S" + str(headOf[R]) + " was executed but is still in the plan", x); return; }
		}
	// ---- liveness in the unambiguous class
	for (int R = 0; R < VT_COUNTS.regions; ++R) {
		const int h = headOf[R];
		if (h < 0 || !exists[R] || !x.before.active[h]) continue;
		const int lo = h, hi = h + E::D(h).size;
		bool envReqInside = false, innerOuter = false, headTouched = false;
		for (size_t i = x.stepBegin; i < x.stepEnd; ++i) {
			const TraceEv& e = x.trace[i];
			if (e.meth == E_REQUEST && e.a != T_SCHEDULE && e.state >= lo && e.state < hi) envReqInside = true;
			if (e.meth == E_REQUEST && e.state < 0) envReqInside = true;  // externally queued requests are processed with the step
			if ((e.meth == E_PLAN_APPEND || e.meth == E_PLAN_CLEAR)) envReqInside = true;  // plans edited inside the step: order-dependent, not judged
		}
		for (const Exe& ex : exes) if (ex.head != h && ex.head >= lo && ex.head < hi) { const int l2 = ex.head, h2 = ex.head + E::D(ex.head).size; if (ex.dest < l2 || ex.dest >= h2) innerOuter = true; }
		for (const Mark& m : marks) if (m.state == h && !m.propagated) headTouched = true;
		// marks deeper than the direct sub-states travel up through regions without a plan: not judged here
		// ... except a FAILURE below a direct sub-state when every region in between has no plan: nothing can handle it on the
		// way, it is the failure of that direct sub-state (a plan-less region has no handler that could override anything)
		bool deepMark = false;
		std::vector<int> nestedFail;
		for (const Mark& m : marks) {
			if (!(m.state > lo && m.state < hi && E::D(m.state).parent != h)) continue;
			bool planLessChain = !m.succ;
			int top = m.state;
			while (E::D(top).parent != h && E::D(top).parent >= 0) {
				top = E::D(top).parent;
				if (E::D(top).region < 0 || exists[E::D(top).region] || !E::named(top)) planLessChain = false;
			}
			for (const Mark& p : marks) if (p.state == top || (p.state > top && p.state < top + E::D(top).size && p.state != m.state)) planLessChain = false;  // one result inside that sub-tree only
			if (planLessChain && E::D(top).parent == h) { nestedFail.push_back(top); ++counters["c06_failures_below_plan_less_sub_regions"]; }
			else deepMark = true;
		}
		if (envReqInside || innerOuter || headTouched || deepMark) continue;
		// witnesses for the known status-sharing findings
		bool ancestorHead = false;
		for (int a = E::D(h).parent; a >= 0; a = E::D(a).parent) for (const Mark& m : marks) if (m.state == a) ancestorHead = true;
		auto inPostPhase = [&](const Mark& m) { for (size_t i = m.at; i-- > x.stepBegin;) { const TraceEv& e = x.trace[i]; if (e.meth <= M_PLAN_FAILED && e.layer == 0) return e.meth == M_POST_UPDATE || e.meth == M_POST_REACT || (VT_BOTTOM_UP && (e.meth == M_PRE_REACT || e.meth == M_REACT)); } return false; };
		bool postPhase = false;
		for (const Mark& m : marks) if (m.state > lo && m.state < hi && !m.propagated && m.at > x.stepBegin && inPostPhase(m)) postPhase = true;
		const std::string wit = ancestorHead ? "/enclosing-head-reported-status" : postPhase ? "/sub-state-reported-in-a-pass-that-visits-the-head-last" : "";
		std::vector<int> directSucc, directFail;
		for (int p = 0; p < E::D(h).width; ++p) {
			const int c = E::child(h, p);
			if (!x.before.active[c]) continue;
			for (const Mark& m : marks) if (m.state == c) (m.succ ? directSucc : directFail).push_back(c);
			for (int t : nestedFail) if (t == c) directFail.push_back(c);
		}
		auto got = [&](int meth) { for (size_t i = x.stepBegin; i < x.stepEnd; ++i) if (x.trace[i].meth == meth && x.trace[i].state == h) return true; return false; };
		++counters["c06_liveness_cases"];
		if (!directFail.empty()) {
			if (E::named(h) && !got(M_PLAN_FAILED)) { violation("C06", "liveness/plan-failed-not-delivered" + wit, "sub-state S" + str(directFail[0]) + " of plan-owning region S" + str(h) + " failed, the head did not receive planFailed", x); return; }
			continue;
		}
		if (directSucc.empty()) continue;
		// the plan as it was when the step began (no edits inside the step in this class)
		const std::vector<Snap::TaskInfo>& plan0 = x.before.plans[R];
		if (plan0.empty()) {
			if (E::named(h) && !got(M_PLAN_SUCCEEDED)) { violation("C06", "liveness/plan-succeeded-not-delivered" + wit, "sub-state S" + str(directSucc[0]) + " of region S" + str(h) + " succeeded and the attached plan is empty, the head did not receive planSucceeded", x); return; }
			continue;
		}
		// every task of the in-order prefix (origins active) whose origin succeeded is executed in this step; once a cyclic task
		// (origin == destination) of an origin ran, its success is consumed and later tasks of that origin are not claimed
		std::set<int> cyclicSeen;
		std::map<std::pair<int, int>, int> need;
		for (const Snap::TaskInfo& t : plan0) {
			if (!x.before.active[t.origin]) break;
			bool succ = false;
			for (const Mark& m : marks) if (m.state == t.origin && m.succ) succ = true;
			if (!succ || cyclicSeen.count(t.origin)) continue;
			if (t.origin == t.dest) cyclicSeen.insert(t.origin);
			const int needed = ++need[std::make_pair(t.origin, t.dest)];
			if (needed > 1) ++counters["c06_further_task_of_same_origin_claimed"];
			int ran = 0;
			for (const Snap::TaskInfo& u : executed[R]) if (u.origin == t.origin && u.dest == t.dest) ++ran;
			if (ran < needed) {
				violation("C06", "liveness/task-not-executed" + wit, "origin S" + str(t.origin) + " succeeded, the head S" + str(h) + " stayed silent and no transition left the region, yet task S" + str(t.origin) + "->S" + str(t.dest) + (needed > 1 ? " (occurrence " + str(needed) + " in the plan)" : "") + " was not executed", x);
				return;
			}
		}
	}
}
#endif

// ---- rounds of one processing call, reconstructed from the guard callbacks ---------------------------------
template <typename FSM>
std::vector<typename Explorer<FSM>::Round> Explorer<FSM>::rounds(const Exec& x) const {
	std::vector<Round> out;
	bool sawCancel = false, sawEntry = false;
	int lastPending = -1, lastCurrent = -1;
	std::set<std::pair<int, int>> seen;
	for (size_t i = x.stepBegin; i < x.stepEnd; ++i) {
		const TraceEv& e = x.trace[i];
		if (e.meth == E_CANCEL) { if (!out.empty()) out.back().cancelled = true; sawCancel = true; continue; }
		if (e.meth != M_ENTRY_GUARD && e.meth != M_EXIT_GUARD) continue;
		if (e.layer != 0) { if (!out.empty()) out.back().last = i; continue; }
		// the set of pending transitions is fixed within a guard pass: another count of pending or of already approved transitions
		// means another round (needed where no guard repeats, e.g. headless programs)
		const bool otherCounts = !out.empty() && (e.a != lastPending || e.c != lastCurrent);
		const bool fresh = out.empty() || (sawCancel && e.b == 0) || (e.meth == M_EXIT_GUARD && sawEntry) || seen.count({e.state, e.meth}) || otherCounts;
		lastPending = e.a; lastCurrent = e.c;
		if (fresh) { out.push_back(Round{i, i, false, e.a}); sawCancel = false; sawEntry = false; seen.clear(); }
		out.back().last = i;
		seen.insert({e.state, e.meth});
		if (e.meth == M_ENTRY_GUARD) sawEntry = true;
	}
	return out;
}

// ---- C04: guards first, veto is atomic, rounds bounded --------------------------------------------------------
template <typename FSM>
void Explorer<FSM>::checkC04(const Node& node, Exec& x) {
	const Op& op = x.step.op;
	const bool processing = op.type == OP_IMMEDIATE || op.type == OP_BATCH || op.type == OP_UPDATE || op.type == OP_REACT;
	const bool initial = op.type == OP_CONSTRUCT || op.type == OP_ENTER;
	if (!processing && !initial) return;
	if (initial && !x.activatedAfter) return;
	const std::vector<Round> rs = rounds(x);
	++compared;
	// (3) bounded rounds, queue drained
	// the first activation consults the entry guards once before any substitution round
	if ((int) rs.size() > VT_SUBLIMIT + (initial ? 1 : 0)) { violation("C04", "rounds/over-limit", "processing ran " + str(rs.size()) + " guard rounds, substitution limit is " + str(VT_SUBLIMIT), x); return; }
	if (x.keyAfter.find("|Q") != std::string::npos) ++counters["c04_requests_left_queued_at_limit_observed"];
	// (1) guards precede every change
	size_t lastGuard = 0, firstLife = x.stepEnd;
	bool anyGuard = false;
	for (size_t i = x.stepBegin; i < x.stepEnd; ++i) {
		const TraceEv& e = x.trace[i];
		if (e.meth == M_ENTRY_GUARD || e.meth == M_EXIT_GUARD) { lastGuard = i; anyGuard = true; }
		if ((e.meth == M_ENTER || e.meth == M_EXIT || e.meth == M_REENTER) && e.layer == 0 && firstLife == x.stepEnd) firstLife = i;
	}
	if (anyGuard && firstLife < lastGuard) { violation("C04", "order/lifecycle-before-guard", "a lifecycle callback ran before the last guard of the call", x); return; }
	for (const Round& r : rs) {
		bool entrySeen = false;
		for (size_t i = r.first; i <= r.last; ++i) {
			const TraceEv& e = x.trace[i];
			if (e.layer) continue;
			if (e.meth == M_ENTRY_GUARD) entrySeen = true;
			if (e.meth == M_EXIT_GUARD && entrySeen) { violation("C04", "order/exit-guard-after-entry-guard", "within one round an exit guard ran after an entry guard", x); return; }
		}
	}
	// witness for the known ortho-root finding: a request addressed to the root of a machine whose root is orthogonal,
	// mixed with other requests in the same call
	int nReq = 0; bool rootReq = false;
	for (size_t i = x.stepBegin; i < x.stepEnd; ++i) if (x.trace[i].meth == E_REQUEST && x.trace[i].a != T_SCHEDULE) { ++nReq; if (x.trace[i].b == 0) rootReq = true; }
	const std::string gmw = (E::isOrtho(0) && rootReq && nReq >= 2) ? "/root-request-mixed-on-orthogonal-root" : "";
	auto guarded = [&](int s, int meth) {
		for (const Round& r : rs) {
			if (r.cancelled) continue;
			for (size_t i = r.first; i <= r.last; ++i) {
				const TraceEv& e = x.trace[i];
				if (e.layer == 0 && e.state == s && e.meth == meth && (initial || e.a > 0)) return true;
			}
		}
		return false;
	};
	for (size_t i = x.stepBegin; i < x.stepEnd; ++i) {
		const TraceEv& e = x.trace[i];
		if (e.layer || E::D(e.state < 0 ? 0 : e.state).lite) continue;
		if (e.meth == M_EXIT && !initial && !guarded(e.state, M_EXIT_GUARD)) { violation("C04", "guard-missing/exit" + gmw, "S" + str(e.state) + " was exited without its exit guard having been consulted in an approved round", x); return; }
		if (e.meth == M_ENTER && !guarded(e.state, M_ENTRY_GUARD)) { violation("C04", "guard-missing/enter" + gmw, "S" + str(e.state) + " was entered without its entry guard having been consulted in an approved round", x); return; }
		if (e.meth == M_REENTER && (!guarded(e.state, M_ENTRY_GUARD) || !guarded(e.state, M_EXIT_GUARD))) { violation("C04", "guard-missing/reenter" + gmw, "S" + str(e.state) + " was re-entered without both guards having been consulted in an approved round", x); return; }
	}
	// no change at all when every round was vetoed
	bool anyApproved = false;
	for (const Round& r : rs) anyApproved = anyApproved || !r.cancelled;
	if (!rs.empty() && !anyApproved && firstLife != x.stepEnd) { violation("C04", "veto/lifecycle-after-veto", "every round was cancelled, yet lifecycle callbacks ran", x); return; }
	// (2) veto atomicity, differential: "X, vetoed, substitute Y" == "Y";  "X vetoed" == nothing (scheduling excepted)
	if (op.type != OP_IMMEDIATE || op.r[0].kind == T_SCHEDULE || x.step.script.size() != 1) return;
	const Choice& ch = x.step.script[0];
	if ((ch.key.meth != M_ENTRY_GUARD && ch.key.meth != M_EXIT_GUARD) || ch.key.occ >= 0xFFFE) return;
	const Action& a = E::G().menuGuard[ch.alt];
	if (a.type != A_CANCEL && a.type != A_CANCEL_REQ) return;
	if (rs.empty() || !rs[0].cancelled) return;	 // the deviating guard was not reached
	if (x.keyAfter.find("|Q") != std::string::npos) return;  // the limit was hit before the substitute could be processed
	auto lifeSeq = [](const Exec& y) { std::vector<std::pair<int, int>> v; for (size_t i = y.stepBegin; i < y.stepEnd; ++i) { const TraceEv& e = y.trace[i]; if (e.layer == 0 && (e.meth == M_ENTER || e.meth == M_EXIT || e.meth == M_REENTER)) v.push_back({e.state, e.meth}); } return v; };
	auto seqText = [](const std::vector<std::pair<int, int>>& v) { std::string t; for (auto& p : v) t += " S" + str(p.first) + "." + METH_NAMES[p.second]; return t; };
	++counters["c04_veto_differentials"];
	if (a.type == A_CANCEL || a.a == T_SCHEDULE) {
		bool sameActive = x.after.active == x.before.active;
		bool sameRes = x.after.resumable == x.before.resumable;
		if (a.type == A_CANCEL_REQ) {  // substitute is a scheduling request: resumable of that region may change
			sameRes = true;
			auto nearestCompo = [](int s) { int p = E::D(s).parent; while (p >= 0 && !E::isCompo(p)) p = E::D(p).parent; return p; };
			for (int s = 0; s < N; ++s) if (x.after.resumable[s] != x.before.resumable[s] && nearestCompo(s) != nearestCompo(a.b)) sameRes = false;
		}
		if (!sameActive) violation("C04", "veto/config-changed", "a vetoed request changed the active configuration", x);
		else if (!sameRes) violation("C04", "veto/resumable-changed", "a vetoed request changed resumable sub-states", x);
		else if (!lifeSeq(x).empty()) violation("C04", "veto/lifecycle", "a vetoed request ran lifecycle callbacks:" + seqText(lifeSeq(x)), x);
		return;
	}
	// reference: the substitute issued on its own from the same state
	Exec y;
	Exec* saved = cur;
	Op oy; oy.type = OP_IMMEDIATE; oy.n = 1; oy.r[0] = Req{(int8_t) a.a, (int16_t) a.b};
	const unsigned savedProps = props;
	props = 0;
	run(node, Step{oy, {}}, y);
	props = savedProps;
	cur = saved;
	--transitions;
	if (y.after.active != x.after.active) { violation("C04", "veto/substitute-config", "'" + op.text() + " vetoed, " + KIND_NAMES[a.a] + "(" + str(a.b) + ") substituted' ends in a different configuration than '" + oy.text() + "' alone", x); return; }
	if (y.after.resumable != x.after.resumable) { violation("C04", "veto/substitute-resumable", "'" + op.text() + " vetoed, " + KIND_NAMES[a.a] + "(" + str(a.b) + ") substituted' ends with different resumable sub-states than '" + oy.text() + "' alone", x); return; }
	if (lifeSeq(y) != lifeSeq(x)) { violation("C04", "veto/substitute-lifecycle", "'" + op.text() + " vetoed, " + KIND_NAMES[a.a] + "(" + str(a.b) + ") substituted' runs" + seqText(lifeSeq(x)) + " but '" + oy.text() + "' alone runs" + seqText(lifeSeq(y)), x); return; }
}

// ---- C13: activity / resumable / pending queries agree with each other and with the outcome ---------------------
template <typename FSM>
void Explorer<FSM>::checkC13(const Node&, Exec& x) {
	const Op& op = x.step.op;
	if (!x.activatedAfter) {
		for (int s = 0; s < N; ++s) if (x.after.activeSub[s] >= 0) { violation("C13", "quiescent/active-sub-inactive-machine", "activeSubState(S" + str(s) + ") valid on an inactive machine", x); return; }
		return;
	}
	const Snap& a = x.after;
	++compared;
	for (int r = 0; r < N; ++r) {
		if (!E::isCompo(r)) continue;
		int act = -1, nres = 0;
		for (int p = 0; p < E::D(r).width; ++p) { if (a.active[E::child(r, p)]) act = p; if (a.resumable[E::child(r, p)]) ++nres; }
		if (a.active[r] ? a.activeSub[r] != act : a.activeSub[r] != -1) { violation("C13", "quiescent/active-sub", "activeSubState(S" + str(r) + ")=" + str(a.activeSub[r]) + " while " + (a.active[r] ? "sub-state #" + str(act) + " is active" : "the region is inactive"), x); return; }
		if (nres > 1) { violation("C13", "quiescent/two-resumable", "two sub-states of S" + str(r) + " reported resumable", x); return; }
	}
	// while nothing is pending all three pending queries are false
	if (!pendingQuiescent.empty()) {
		for (int s = 0; s < N; ++s)
			if (pendingQuiescent[s]) {
				const int bits = pendingQuiescent[s];
				violation("C13", std::string("pending-quiescent/") + ((bits & 1) ? "enter" : (bits & 2) ? "exit" : "change"), std::string("with nothing pending ") + ((bits & 1) ? "isPendingEnter" : (bits & 2) ? "isPendingExit" : "isPendingChange") + "(S" + str(s) + ") is true", x);
				return;
			}
	}
	// the sub-state reported resumable is the one a subsequent resume of that region activates
	auto hasCompoAncestor = [](int s) { for (int p = E::D(s).parent; p >= 0; p = E::D(p).parent) if (E::isCompo(p)) return true; return s == 0; };
	if (op.type == OP_IMMEDIATE && op.r[0].kind == T_RESUME && x.step.script.empty() && E::isCompo(op.r[0].state) && x.activatedBefore && hasCompoAncestor(op.r[0].state)) {
		const int r = op.r[0].state;
		int rep = 0;
		for (int p = 0; p < E::D(r).width; ++p) if (x.before.resumable[E::child(r, p)]) rep = p;
		bool vetoed = false;
		for (size_t i = x.stepBegin; i < x.stepEnd; ++i) if (x.trace[i].meth == E_CANCEL) vetoed = true;
		if (!vetoed && (!a.active[r] || a.activeSub[r] != rep)) { violation("C13", "resume/not-the-reported-one", "immediateResume(S" + str(r) + ") activated sub-state #" + str(a.activeSub[r]) + " but #" + str(rep) + " was reported resumable (else the first)", x); return; }
	}
	// inside guards of a single pending request: isPendingEnter/Exit/Change == what the approved round then does
	if (op.type == OP_IMMEDIATE && op.r[0].kind != T_SCHEDULE && x.step.script.empty() && !guardSnaps.empty()) {
		std::vector<uint8_t> enters(N, 0), exits(N, 0);
		bool vetoed = false;
		for (size_t i = x.stepBegin; i < x.stepEnd; ++i) {
			const TraceEv& e = x.trace[i];
			if (e.meth == E_CANCEL) vetoed = true;
			if (e.layer) continue;
			if (e.meth == M_ENTER) enters[e.state] = 1;
			if (e.meth == M_EXIT) exits[e.state] = 1;
		}
		if (vetoed) return;
		std::set<std::string> reported;
		auto nearestCompo = [](int s) { int p = E::D(s).parent; while (p >= 0 && !E::isCompo(p)) p = E::D(p).parent; return p; };
		for (const GuardSnap& g : guardSnaps) {
			for (int s = 0; s < N; ++s) {
				if (!E::named(s) || E::D(s).lite) continue;
				const bool pe = g.bits[s] & 1, px = g.bits[s] & 2, pc = g.bits[s] & 4;
				const int A = nearestCompo(s);
				const int reqA = A >= 0 ? g.req[E::D(A).compo] : -1;
				const int actA = A >= 0 ? x.before.rawActive[E::D(A).compo] : -1;
				for (int q = 0; q < 3; ++q) {
					const char* what = q == 0 ? "isPendingEnter" : q == 1 ? "isPendingExit" : "isPendingChange";
					const bool got = q == 0 ? pe : q == 1 ? px : pc;
					const bool want = q == 0 ? enters[s] != 0 : q == 1 ? exits[s] != 0 : (enters[s] || exits[s]);
					if (got == want) continue;
					std::string w = "other";
					if (got && !want) {
						if (q == 2 && A >= 0 && reqA >= 0 && reqA != actA) w = "answers-for-the-region-not-the-state";
						else if (q == 0 && A >= 0 && !x.after.active[A]) w = "stale-target-in-a-region-that-is-not-active-afterwards";
					} else {
						// the state is entered / exited although its own region (nearest composite ancestor) does not switch
						if (A >= 0 && (reqA < 0 || reqA == actA)) w = "not-caused-by-its-own-region";
					}
					const std::string fp = std::string("pending-in-guard/") + what + "/" + (got ? "true-but-not-happening" : "false-but-happens") + "/" + w;
					if (!reported.insert(fp).second) continue;
					violation("C13", fp, std::string("inside S") + str(g.state) + "." + METH_NAMES[g.meth] + " evaluating " + op.text() + ": " + what + "(S" + str(s) + ")=" + (got ? "true" : "false") +
							  " but the approved round " + (want ? "does" : "does not") + (q == 0 ? " enter" : q == 1 ? " exit" : " enter or exit") + " S" + str(s), x);
				}
			}
		}
		if (!reported.empty()) return;
		++counters["c13_guard_snapshots_compared"];
	}
}

// ---- C05: update / react / query reach exactly the active states in the documented order -------------------
template <typename FSM>
void Explorer<FSM>::checkC05(const Node&, Exec& x) {
	const Op& op = x.step.op;
	if (!x.activatedBefore) return;
	const bool isUpdate = op.type == OP_UPDATE || op.type == OP_BATCH || (op.type == OP_IMMEDIATE && op.r[0].kind == T_SCHEDULE);
	if (!(isUpdate || op.type == OP_REACT || op.type == OP_QUERY)) return;
	struct Ev3 { int state, meth, layer; bool operator==(const Ev3& o) const { return state == o.state && meth == o.meth && layer == o.layer; } };
	const Snap& b = x.before;
	// expected visiting order of one pass
	std::function<void(int, int, bool, bool, std::vector<Ev3>&)> visit = [&](int s, int meth, bool headFirst, bool injectedFirst, std::vector<Ev3>& out) {
		auto emit = [&]() {
			if (!E::named(s)) return;
			const StateDesc& d = E::D(s);
			if (d.lite) { if (meth == M_UPDATE) out.push_back(Ev3{s, meth, 0}); return; }
			if (d.inject && injectedFirst) { out.push_back(Ev3{s, meth, 1}); out.push_back(Ev3{s, meth, 2}); }
			out.push_back(Ev3{s, meth, 0});
			if (d.inject && !injectedFirst) { out.push_back(Ev3{s, meth, 2}); out.push_back(Ev3{s, meth, 1}); }
		};
		if (headFirst) emit();
		if (E::isOrtho(s)) { for (int p = 0; p < E::D(s).width; ++p) visit(E::child(s, p), meth, headFirst, injectedFirst, out); }
		else if (E::isCompo(s)) { if (b.activeSub[s] >= 0) visit(E::child(s, b.activeSub[s]), meth, headFirst, injectedFirst, out); }
		if (!headFirst) emit();
	};
	// own and injected handlers of one state in one pass: the statement fixes "injected before own on the way down, after it on
	// the way up" but not the order among several injected bases, and nothing for query: normalise such runs
	auto normalise = [](std::vector<Ev3>& v, bool includeOwn) {
		size_t i = 0;
		while (i < v.size()) {
			size_t j = i;
			while (j < v.size() && v[j].state == v[i].state && v[j].meth == v[i].meth && (includeOwn || v[j].layer != 0)) ++j;
			if (j > i + 1) std::sort(v.begin() + (long) i, v.begin() + (long) j, [](const Ev3& a, const Ev3& c) { return a.layer < c.layer; });
			i = j > i ? j : i + 1;
		}
	};
	auto actual = [&](int meth) {
		std::vector<Ev3> v;
		for (size_t i = x.stepBegin; i < x.stepEnd; ++i) if (x.trace[i].meth == meth) v.push_back(Ev3{x.trace[i].state, meth, x.trace[i].layer});
		return v;
	};
	auto consumer = [&](int meth) {	 // first state that consumed during this pass (-1 none)
		for (size_t i = x.stepBegin; i < x.stepEnd; ++i) if (x.trace[i].meth == E_CONSUME && x.trace[i].a == meth) return (int) x.trace[i].state;
		return -1;
	};
	auto text = [](const std::vector<Ev3>& v) { std::string t; for (const Ev3& e : v) t += " S" + str(e.state) + (e.layer ? "@inj" + str(e.layer) : ""); return t; };
	auto checkPass = [&](int meth, bool headFirst, bool injectedFirst, bool isQuery, const char* what) -> bool {
		std::vector<Ev3> expFull, got = actual(meth);
		visit(0, meth, headFirst, injectedFirst, expFull);
		std::vector<Ev3> exp = expFull;
		const int c = consumer(meth);
		if (c >= 0) {
			// the pass stops as soon as a state consumes: nothing after that state's handlers
			size_t last = 0; bool found = false;
			for (size_t i = 0; i < exp.size(); ++i) if (exp[i].state == c) { last = i; found = true; }
			if (found) exp.resize(last + 1);
		}
		normalise(exp, isQuery); normalise(got, isQuery); normalise(expFull, isQuery);
		++compared;
		if (got == exp) return true;
		std::string fp = std::string(what) + "/order";
		if (c >= 0 && got.size() > exp.size() && std::equal(exp.begin(), exp.end(), got.begin())) fp = std::string(what) + "/delivered-after-consume";
		else if (got.size() != exp.size()) fp = std::string(what) + "/set-of-states";
		violation("C05", fp, std::string(METH_NAMES[meth]) + " pass of " + op.text() + (c >= 0 ? " (S" + str(c) + " consumes)" : "") + " visited:" + text(got) + "  expected:" + text(exp), x);
		return false;
	};
	const bool bottomUp = VT_BOTTOM_UP;
	if (isUpdate) {
		if (!checkPass(M_PRE_UPDATE, true, true, false, "update")) return;
		if (!checkPass(M_UPDATE, true, true, false, "update")) return;
		if (!checkPass(M_POST_UPDATE, false, false, false, "update")) return;
	} else if (op.type == OP_REACT) {
		if (!checkPass(M_PRE_REACT, !bottomUp, true, false, "react")) return;
		if (!checkPass(M_REACT, !bottomUp, true, false, "react")) return;
		if (!checkPass(M_POST_REACT, bottomUp, false, false, "react")) return;
	} else {
		if (!checkPass(M_QUERY, !bottomUp, true, true, "query")) return;
		if (x.keyAfter != x.keyBefore) { violation("C05", "query/changed-state", "query() changed the state", x); return; }
		for (size_t i = x.stepBegin; i < x.stepEnd; ++i) {
			const int m = x.trace[i].meth;
			if (m != M_QUERY && m != E_CONSUME && m != E_API) { violation("C05", "query/other-callback", std::string("query() invoked ") + METH_NAMES[m], x); return; }
		}
	}
}

// ---- C02: reference semantics on every edge ----------------------------------------------------------
template <typename FSM>
void Explorer<FSM>::checkC02(const Node& node, Exec& x) {
	const Op& op = x.step.op;
	if (!x.activatedBefore) return;
	if (!(op.type == OP_IMMEDIATE || op.type == OP_BATCH || op.type == OP_UPDATE || op.type == OP_REACT || op.type == OP_RESET)) return;
	struct Rq { int kind, dest, origin; };
	std::vector<Rq> reqs;
	bool cancel = false, planAct = false, guardSeen = false;
	int round1 = 0, later = 0, lifecycle = 0;
	for (size_t i = x.stepBegin; i < x.stepEnd; ++i) {
		const TraceEv& e = x.trace[i];
		switch (e.meth) {
		case E_REQUEST: reqs.push_back(Rq{e.a, e.b, e.state}); if (e.a != T_SCHEDULE || true) { if (guardSeen) ++later; else ++round1; } break;
		case E_CANCEL: cancel = true; break;
		case E_SUCCEED: case E_FAIL: case M_PLAN_SUCCEEDED: case M_PLAN_FAILED: case E_PLAN_APPEND: case E_PLAN_CLEAR: planAct = true; break;
		case M_ENTRY_GUARD: case M_EXIT_GUARD: guardSeen = true; break;
		case M_ENTER: case M_EXIT: case M_REENTER: ++lifecycle; break;
		default: break;
		}
	}
	if (cancel || planAct) { ++counters["c02_skipped_veto_or_plan"]; return; }
	if (round1 > VT_COUNTS.compo || later > VT_COUNTS.compo) { ++counters["c02_skipped_over_capacity"]; return; }
	if (op.type == OP_RESET) {
		// reset() == first activation: same configuration, nothing resumable, same enter sequence
		if (!x.step.script.empty()) return;
		bool same = x.after.active == initialSnap.active;
		bool anyRes = false;
		for (int s = 0; s < N; ++s) anyRes = anyRes || x.after.resumable[s];
		std::vector<int> enters;
		for (size_t i = x.stepBegin; i < x.stepEnd; ++i) if (x.trace[i].meth == M_ENTER && x.trace[i].layer == 0) enters.push_back(x.trace[i].state);
		if (!same) violation("C02", "reset/config", "reset() did not re-activate the machine in its initial configuration", x);
		else if (anyRes) violation("C02", "reset/resumable", "a sub-state is still reported resumable after reset()", x);
		else if (enters != initialEnters) violation("C02", "reset/enter-sequence", "reset() enters states in a different order than the first activation", x);
		++compared;
		return;
	}
	if (reqs.empty()) {
		// processing with no pending request changes nothing
		if (x.keyAfter != x.keyBefore) violation("C02", "empty-step/state", "a step without requests changed the state (" + x.keyBefore + " -> " + x.keyAfter + ")", x);
		else if (lifecycle) violation("C02", "empty-step/lifecycle", "a step without requests ran lifecycle callbacks", x);
		++compared;
		return;
	}
	RefModel<FSM> m;
	m.init(x.before);
	const std::vector<Choice>& sc = x.step.script;
	auto answer = [&sc](int state, uint8_t meth) { for (const Choice& c : sc) if (c.key.state == state && c.key.meth == meth && c.key.occ == 0xFFFF) return (int) c.alt; return 0; };
	m.selectOf = [&](int s) { return E::named(s) ? answer(s, M_SELECT) : 0; };
#if VT_UTILITY
	m.utilityOf = [&](int s) { return E::named(s) ? E::UTIL_MENU[answer(s, M_UTILITY)] : 0.0f; };  // anonymous heads report utility 0
	m.rankOf = [&](int s) { return E::named(s) ? E::RANK_MENU[answer(s, M_RANK)] : 0; };
	if (answer(-1, E_RNG) >= RNG_EXACT) { ++counters["c02_skipped_inexact_random"]; return; }
	m.rnd = RNG_MENU[answer(-1, E_RNG)];
#else
	m.utilityOf = [](int) { return 1.0f; };
	m.rankOf = [](int) { return 0; };
#endif
	for (const Rq& r : reqs) m.request(r.kind, r.dest);
	m.commit();
	if (m.randomFellOff) { ++counters["c02_skipped_random_rounding"]; return; }
	++compared;
	++counters["c02_edges_compared"];
	int nns = 0;
	Rq lastNs{0, 0, 0};
	for (const Rq& r : reqs) if (r.kind != T_SCHEDULE) { ++nns; lastNs = r; }
	auto isAncestorOrSelf = [](int a, int s) { for (int t = s; t >= 0; t = E::D(t).parent) if (t == a) return true; return false; };
	auto activeChain = [&](int d) { for (int t = d; t >= 0; t = E::D(t).parent) if (!x.after.active[t]) return false; return true; };
	std::string exp, got;
	for (int s = 0; s < N; ++s) { if (m.activeAfter(s)) exp += " S" + str(s); if (x.after.active[s]) got += " S" + str(s); }
	// --- configuration
	int bad = -1;
	for (int s = 0; s < N && bad < 0; ++s) if (m.activeAfter(s) != (x.after.active[s] != 0)) bad = s;
	if (nns <= 1) {
		// single transition request (plus scheduling requests): full functional equality with the reference semantics
		if (bad >= 0) {
			const std::string fp = m.usedSelectOnRegion ? std::string("config/select-into-region") : std::string("single/") + KIND_NAMES[lastNs.kind];
			violation("C02", fp, "after " + op.text() + " the active configuration is {" + got + " } but the rules prescribe {" + exp + " } (first difference at S" + str(bad) + ")", x);
			return;
		}
	} else {
		// batches: the statement-level clauses (DESIGN 3.4 (i)-(iii)); agreement with the map model is only counted
		if (bad >= 0) {
			++counters["c02_batch_model_differs_observed"];
			{
				// witness of the known finding: the region whose sub-state differs was resolved by an earlier request (it lies at or below
				// that request's destination) and lies inside the sub-tree a later request re-targets
				bool sameDest = false;
				int rb = E::D(bad).parent;
				while (rb >= 0 && !E::isCompo(rb)) rb = E::D(rb).parent;
				if (rb >= 0)
					for (size_t i = 0; i < reqs.size(); ++i) for (size_t j = i + 1; j < reqs.size(); ++j) {
						if (reqs[i].kind == T_SCHEDULE || reqs[j].kind == T_SCHEDULE) continue;
						int top = reqs[j].dest;
						while (E::D(top).parent >= 0 && !E::isCompo(E::D(top).parent)) top = E::D(top).parent;
						// resolved by request i: at or below its destination, or in another prong of an orthogonal region on its path
						bool resolvedByI = isAncestorOrSelf(reqs[i].dest, rb);
						if (!resolvedByI && !isAncestorOrSelf(rb, reqs[i].dest)) {
							int topI = reqs[i].dest;
							while (E::D(topI).parent >= 0 && !E::isCompo(E::D(topI).parent)) topI = E::D(topI).parent;
							if (isAncestorOrSelf(topI, rb)) {
								int l = rb;
								while (l >= 0 && !isAncestorOrSelf(l, reqs[i].dest)) l = E::D(l).parent;
								if (l >= 0 && E::isOrtho(l)) resolvedByI = true;
							}
						}
						// request j reaches into the same branch of the machine (the sub-tree of the root's sub-state on its path): it re-targets,
						// freshly enters or - after an earlier conflicting request at a common ancestor - switches back to a sub-tree containing rb
						int t0 = reqs[j].dest;
						while (E::D(t0).parent > 0) t0 = E::D(t0).parent;
						const bool retargetedByJ = reqs[j].dest == 0 || isAncestorOrSelf(t0, rb) || isAncestorOrSelf(top, rb);
						if (resolvedByI && retargetedByJ && (reqs[i].dest != reqs[j].dest || reqs[i].kind != reqs[j].kind)) sameDest = true;
					}
				// not judged: the differing region belongs to (lies on the path of, or was resolved by) a request that a LATER request of the
				// batch conflicts with (their paths take different sub-states of a composite region) - whether such a request is still in
				// force once a third request returns to its branch is not stated
				bool overridden = false;
				if (rb >= 0) {
					auto diverge = [&](int d1, int d2) {
						for (int t = d1; E::D(t).parent >= 0; t = E::D(t).parent) {
							const int a = E::D(t).parent;
							if (!E::isCompo(a) || !isAncestorOrSelf(a, d2) || d2 == a) continue;
							int u = d2; while (E::D(u).parent != a) u = E::D(u).parent;
							if (u != t) return true;
						}
						return false;
					};
					for (size_t i = 0; i < reqs.size() && !overridden; ++i) {
						if (reqs[i].kind == T_SCHEDULE) continue;
						int topI = reqs[i].dest;
						while (E::D(topI).parent >= 0 && !E::isCompo(E::D(topI).parent)) topI = E::D(topI).parent;
						if (!(isAncestorOrSelf(rb, reqs[i].dest) || isAncestorOrSelf(reqs[i].dest, rb) || isAncestorOrSelf(topI, rb))) continue;
						for (size_t k = i + 1; k < reqs.size(); ++k) if (reqs[k].kind != T_SCHEDULE && diverge(reqs[i].dest, reqs[k].dest)) overridden = true;
					}
				}
				if (overridden && !sameDest) { ++counters["c02_batch_model_differs_after_overridden_request_not_judged"]; }
				else
				++counters[sameDest ? "c02_batch_model_differs_same_destination_other_kind" : "c02_batch_model_differs_other"];
				if (!m.usedSelectOnRegion && !(overridden && !sameDest)) {
					// the map semantics (every request's path is kept unless a later request conflicts; regions are resolved by the kind of
					// the request that first reaches them) is exact for batches as well - except when a later request addresses a region
					// that an earlier request (to the same region or to an ancestor) already resolved: the library keeps the earlier
					// resolution instead of letting the later request override it (known finding)
					violation("C02", sameDest ? "batch/region-already-resolved-by-earlier-request" : "batch/model-differs",
							  "after " + op.text() + " the active configuration is {" + got + " } but the rules prescribe {" + exp + " } (first difference at S" + str(bad) + ")" +
							  (sameDest ? "; a later request addresses a region that an earlier request of the batch (to the same region or to an ancestor) had already resolved, and the earlier resolution was kept" : ""), x);
					return;
				}
			}
			if (getenv("VT_DEBUG_BATCH") && counters["c02_batch_model_differs_observed"] % 97 == 1) fprintf(stderr, "BATCHDIFF %s | %s | before %s | got {%s } model {%s }\n", VT_PROG_NAME, op.text().c_str(), x.keyBefore.c_str(), got.c_str(), exp.c_str());
		}
		if (!m.usedSelectOnRegion) {
			// (i) the last request always wins
			if (!activeChain(lastNs.dest)) {
				violation("C02", "batch/last-request-loses", "after " + op.text() + " the destination S" + str(lastNs.dest) + " of the LAST request (or one of its ancestors) is not active; active: {" + got + " }", x);
				return;
			}
			// (ii) an earlier destination stays unless a later request conflicts with it
			for (size_t i = 0; i + 1 < reqs.size(); ++i) {
				if (reqs[i].kind == T_SCHEDULE) continue;
				bool conflict = false;
				for (size_t j = i + 1; j < reqs.size() && !conflict; ++j) {
					if (reqs[j].kind == T_SCHEDULE) continue;
					const int d1 = reqs[i].dest, d2 = reqs[j].dest;
					if (isAncestorOrSelf(d2, d1)) { conflict = true; break; }	// re-targets a region containing d1
					// paths diverge at a composite-style ancestor
					for (int t = d1; E::D(t).parent >= 0 && !conflict; t = E::D(t).parent) {
						const int a = E::D(t).parent;
						if (!E::isCompo(a)) continue;
						if (isAncestorOrSelf(a, d2) && d2 != a) {
							int u = d2; while (E::D(u).parent != a) u = E::D(u).parent;
							if (u != t) conflict = true;
						}
					}
					// d2 below d1: d1 is re-resolved along d2's path, still active
				}
				if (!conflict && !activeChain(reqs[i].dest)) {
					violation("C02", "batch/earlier-request-lost", "after " + op.text() + " the destination S" + str(reqs[i].dest) + " of an earlier, non-conflicting request is not active; active: {" + got + " }", x);
					return;
				}
			}
		}
	}
	// (iii) regions no request touches keep their sub-state (all batch sizes)
	{
		std::vector<uint8_t> touchedRegion(N, 0);
		for (const Rq& r : reqs) {
			if (r.kind == T_SCHEDULE) { if (E::D(r.dest).parent >= 0) touchedRegion[E::D(r.dest).parent] = 1; continue; }
			if (r.dest == 0) { std::fill(touchedRegion.begin(), touchedRegion.end(), 1); break; }
			// composite ancestors of the destination, and everything inside the sub-tree of the nearest composite ancestor's child
			int top = r.dest;
			for (int t = r.dest; E::D(t).parent >= 0; t = E::D(t).parent) { touchedRegion[E::D(t).parent] = 1; }
			while (E::D(top).parent >= 0 && !E::isCompo(E::D(top).parent)) top = E::D(top).parent;
			// a switch of any ancestor exits/enters whole sub-trees: everything below a switched ancestor is touched as well
			for (int t = r.dest; E::D(t).parent >= 0; t = E::D(t).parent) {
				const int a = E::D(t).parent;
				if (E::isCompo(a) && x.before.activeSub[a] != E::D(t).prong) { top = t; for (int q = a + 1; q < a + E::D(a).size; ++q) touchedRegion[q] = 1; }
			}
			for (int q = top; q < top + E::D(top).size; ++q) touchedRegion[q] = 1;
		}
		for (int r = 0; r < N; ++r)
			if (E::isCompo(r) && !touchedRegion[r]) {
				bool sameRes = true;
				for (int p = 0; p < E::D(r).width; ++p) sameRes = sameRes && x.before.resumable[E::child(r, p)] == x.after.resumable[E::child(r, p)];
				if (x.before.activeSub[r] != x.after.activeSub[r] || x.before.active[r] != x.after.active[r] || !sameRes) {
					violation("C02", "untouched/changed", "after " + op.text() + " region S" + str(r) + ", which no request touches, changed its active or resumable sub-state", x);
					return;
				}
			}
	}
	// --- resumable marks: each region remembers the sub-state it last left (per the exit callbacks actually delivered)
	// or was given by schedule; policy (a): only judged when that sub-state is not the active one
	{
		std::vector<int> last(N, -2);
		for (size_t i = x.stepBegin; i < x.stepEnd; ++i) {
			const TraceEv& e = x.trace[i];
			if (e.meth == M_EXIT && e.layer == 0) {
				// attribute to every composite ancestor region for which this state is (inside) a direct child whose head it is
				const int s = e.state;
				int t = s;
				// climb through anonymous (headless) region heads that have no callback of their own
				while (true) {
					const int a = E::D(t).parent;
					if (a < 0) break;
					if (E::isCompo(a)) last[a] = E::D(t).prong;
					if (E::named(a)) break;	 // a named parent reports its own exit
					t = a;
				}
			} else if (e.meth == E_REQUEST && e.a == T_SCHEDULE) {
				const int a = E::D(e.b).parent;
				if (a >= 0 && E::isCompo(a)) last[a] = E::D(e.b).prong;
			}
		}
		for (int r = 0; r < N; ++r) {
			if (!E::isCompo(r)) continue;
			int before = -1, after = -1, nAfter = 0;
			for (int p = 0; p < E::D(r).width; ++p) {
				if (x.before.resumable[E::child(r, p)]) before = p;
				if (x.after.resumable[E::child(r, p)]) { after = p; ++nAfter; }
			}
			const int L = last[r] != -2 ? last[r] : before;
			if (nAfter > 1) { violation("C02", "resumable/two-marks", "two sub-states of S" + str(r) + " are reported resumable", x); return; }
			if (L >= 0 && x.after.active[r] && L == x.after.activeSub[r]) continue;
			if (after != L) {
				std::string fp = "resumable/other";
				if (x.before.active[r] && x.after.active[r] && x.before.activeSub[r] != x.after.activeSub[r] && L == x.before.activeSub[r]) fp = "resumable/switch-not-recorded";
				else if (last[r] == -2) fp = "resumable/unchanged-region-changed";
				violation("C02", fp, "after " + op.text() + " region S" + str(r) + " reports sub-state #" + str(after) + " resumable, expected #" + str(L) +
						  " (the one it last left / was scheduled)", x);
				return;
			}
		}
	}
}

template <typename FSM> void Explorer<FSM>::extraOps(const Node& n, std::vector<Op>& ops) const {
	if (!(props & P_C11) || !n.activated) return;
	const int cap = VT_COUNTS.compo;
	// bursts of external requests around and beyond the queue capacity
	for (int q : {cap, cap + 1, cap + 2, 2 * cap})
		for (int kind : {(int) T_CHANGE, (int) T_RESTART, (int) T_SCHEDULE})
			for (int base : {1, N / 2}) { Op o; o.type = OP_BURST; o.n = (uint8_t) q; o.r[0] = Req{(int8_t) kind, (int16_t) base}; ops.push_back(o); }
	{ Op o; o.type = OP_FLOOD_UPDATE; ops.push_back(o); }
	// scheduling the root is a call with a valid identifier
	{ Op o; o.type = OP_IMMEDIATE; o.n = 1; o.r[0] = Req{(int8_t) T_SCHEDULE, 0}; ops.push_back(o); }
#if VT_PLANS
	const int tcap = (int) FSM::Instance::TASK_CAPACITY;
	for (int r = 0; r < VT_COUNTS.regions && r < 2; ++r)
		for (int k : {tcap, tcap + 1, tcap + 3}) { if (k > 250) continue; Op o; o.type = OP_PLAN_FLOOD; o.arg = (int16_t) r; o.n = (uint8_t) k; ops.push_back(o); }
	// thorough: a status reported for a state that is not active (a call with a valid identifier), one pending mark at a time
	if (opt.tier == "thorough" && n.key.find("|M") == std::string::npos)
		for (int s = 1; s < N; ++s)
			if (s < (int) n.active.size() && !n.active[s]) { Op o; o.type = OP_FAIL; o.arg = (int16_t) s; ops.push_back(o); }
#endif
#if VT_HISTORY
	const int hcap = cap * VT_SUBLIMIT;
	for (int k : {hcap, hcap + 1, 4 * hcap}) { if (k > 250) continue; Op o; o.type = OP_REPLAY_FLOOD; o.n = (uint8_t) k; ops.push_back(o); }
#endif
}

// ---- C09: history records what was applied; replaying it reproduces the state -----------------------------------
#if VT_HISTORY
template <typename FSM>
void Explorer<FSM>::checkC09(Runner& r, Exec& x) {
	const Op& op = x.step.op;
	const bool processing = op.type == OP_IMMEDIATE || op.type == OP_BATCH || op.type == OP_UPDATE || op.type == OP_REACT;
	const bool initial = (op.type == OP_CONSTRUCT && !E::MANUAL) || op.type == OP_ENTER;
	if (!processing && !initial) return;
	if (!x.activatedAfter) return;
	struct Rq { int kind, dest, origin, tag; };
	// request groups: G[0] issued before the first guard callback, G[k] issued during guard round k
	const std::vector<Round> rs = rounds(x);
	std::vector<std::vector<Rq>> groups(rs.size() + 1);
	bool planAct = false;
	for (size_t i = x.stepBegin; i < x.stepEnd; ++i) {
		const TraceEv& e = x.trace[i];
		if (e.meth == E_SUCCEED || e.meth == E_FAIL || e.meth == M_PLAN_SUCCEEDED || e.meth == M_PLAN_FAILED) planAct = true;
		if (e.meth != E_REQUEST) continue;
		size_t g = 0;
		for (size_t k = 0; k < rs.size(); ++k) if (i > rs[k].first) g = k + 1;
		groups[g].push_back(Rq{e.a, e.b, e.state, e.c});
	}
	if (planAct) return;  // requests issued by plans are not visible as environment requests
	for (auto& g : groups) if ((int) g.size() > VT_COUNTS.compo) return;  // over capacity: C11
	// round j evaluates group j (group 0: issued before any guard; group j: issued by the guards of round j-1; for the first
	// activation group 0 is empty). The group issued by the guards of the last visible round is evaluated in a round in
	// which no guard callback is invoked (or not at all): it may be recorded, but is not required.
	struct Tagged { Rq q; int status; };  // 0 approved (required), 1 optional, 2 vetoed
	std::vector<Tagged> seq;
	for (size_t g = 0; g < groups.size(); ++g)
		for (const Rq& q : groups[g]) seq.push_back(Tagged{q, g < rs.size() ? (rs[g].cancelled ? 2 : 0) : 1});
	std::vector<Rq> approved, vetoed;
	for (const Tagged& t : seq) { if (t.status == 0) approved.push_back(t.q); if (t.status == 2) vetoed.push_back(t.q); }
	const auto& pt = r.fsm->previousTransitions();
	++compared;
	auto same = [](const typename E::Transition& t, const Rq& q) { return (int) t.destination == q.dest && Runner::kindOf(t.type) == q.kind; };
	// (1) order-preserving sub-sequence of the requests that were not vetoed
	size_t j = 0;
	for (unsigned i = 0; i < pt.count(); ++i) {
		while (j < seq.size() && (seq[j].status == 2 || !same(pt[i], seq[j].q))) ++j;
		if (j == seq.size()) {
			bool fromVeto = false;
			for (const Rq& q : vetoed) if (same(pt[i], q)) fromVeto = true;
			violation("C09", fromVeto ? "history/contains-vetoed-request" : "history/not-a-subsequence", "previousTransitions()[" + str(i) + "] = " + KIND_NAMES[Runner::kindOf(pt[i].type) < 0 ? 0 : Runner::kindOf(pt[i].type)] + "(" + str((int) pt[i].destination) +
					  ") is not (in order) among the requests of the approved rounds", x);
			return;
		}
		++j;
	}
	// (2) every approved transition request is recorded (scheduling requests: neither required nor forbidden)
	for (const Rq& q : approved) {
		if (q.kind == T_SCHEDULE) continue;
		bool found = false;
		for (unsigned i = 0; i < pt.count(); ++i) if (same(pt[i], q)) found = true;
		if (!found) { violation("C09", "history/approved-request-missing", std::string("approved request ") + KIND_NAMES[q.kind] + "(" + str(q.dest) + ") is missing from previousTransitions()", x); return; }
	}
	bool anyApprovedTransition = false;
	for (const Rq& q : approved) if (q.kind != T_SCHEDULE) anyApprovedTransition = true;
	bool anyOptional = false;
	for (const Tagged& t : seq) if (t.status == 1) anyOptional = true;
	if (!anyApprovedTransition && !anyOptional && !initial && pt.count()) {
		bool onlySchedule = true;
		for (unsigned i = 0; i < pt.count(); ++i) if (pt[i].type != hfsm2::TransitionType::SCHEDULE) onlySchedule = false;
		if (!onlySchedule) { violation("C09", "history/not-empty", "nothing was approved, yet previousTransitions() is not empty", x); return; }
	}
	// (3) lastTransitionTo(s): null or inside the array; after a single approved request: that request for every entered state
	for (int s = 0; s < N; ++s) {
		const auto* t = r.fsm->lastTransitionTo((hfsm2::StateID) s);
		if (t && (pt.count() == 0 || t < &pt[0] || t > &pt[pt.count() - 1])) { violation("C09", "last-transition/outside", "lastTransitionTo(S" + str(s) + ") does not point into previousTransitions()", x); return; }
	}
	if (pt.count() == 1 && approved.size() == 1 && seq.size() == 1 && rs.size() == 1 && !initial) {
		for (size_t i = x.stepBegin; i < x.stepEnd; ++i) {
			const TraceEv& e = x.trace[i];
			if (e.meth == M_ENTER && e.layer == 0 && r.fsm->lastTransitionTo((hfsm2::StateID) e.state) != &pt[0]) {
				// witness for the known finding: the state was chosen by a utility / random report (which carries no request index)
				const int k = approved[0].kind;
				bool viaReport = k == T_UTILIZE || k == T_RANDOMIZE;
				if (k == T_CHANGE) for (int t = E::D(e.state).parent; t >= 0; t = E::D(t).parent) if (E::D(t).kind == K_UTILITARIAN || E::D(t).kind == K_RANDOM) viaReport = true;
				violation("C09", std::string("last-transition/entered-state/") + (viaReport ? "chosen-by-utility-or-random-report" : "other"), "after the single approved request " + std::string(KIND_NAMES[k]) + "(" + str(approved[0].dest) + "), lastTransitionTo(S" + str(e.state) +
						  ") is not that request although S" + str(e.state) + " was entered by it", x);
				return;
			}
		}
	}
	// (4) replica: identically prepared instance + replayTransitions()/replayEnter() -> same configuration, no guards
	if (pt.count() == 0) return;
	std::vector<typename E::Transition> list;
	for (unsigned i = 0; i < pt.count(); ++i) list.push_back(pt[i]);
	Runner rep;
	rep.env.monitoring = false;
	for (const Step& st : *x.hist) rep.apply(st, opt.fill);
	bool ok = false;
	const size_t t0r = rep.env.trace.size();
	rep.env.stepTag = r.env.stepTag;
	rep.env.beginStep(x.step.script, N);
	if (initial) {
#if VT_MANUAL
		if (!rep.fsm) { Step c; c.op.type = OP_CONSTRUCT; rep.apply(c, opt.fill); }
		ok = rep.fsm->replayEnter(&list[0], (hfsm2::Short) list.size());
		if (x.hist->size() > 1) ++counters["c09_replay_enter_after_exit"];
#else
		return;	 // automatic activation cannot be replayed on an inactive replica
#endif
	} else
		ok = rep.fsm->replayTransitions(&list[0], (hfsm2::Short) list.size());
	++counters["c09_replays"];
	const Snap rs2 = rep.snap();
	for (size_t i = t0r; i < rep.env.trace.size(); ++i)
		if (rep.env.trace[i].meth == M_ENTRY_GUARD || rep.env.trace[i].meth == M_EXIT_GUARD) { violation("C09", "replay/guard-consulted", "replaying the recorded transitions consulted a guard", x); return; }
	if (!ok) {
		// replay reports 'false' when the list changes nothing: then the authority must not have changed either
		if (x.after.active != x.before.active) { violation("C09", "replay/refused", "replayTransitions() refused the recorded list although the authority changed its configuration", x); return; }
		return;
	}
	{
		// the replayed step is a processing step of the replica: its history is exactly the list that was applied
		const auto& rpt = rep.fsm->previousTransitions();
		bool sameList = rpt.count() == list.size();
		for (unsigned i = 0; sameList && i < rpt.count(); ++i) sameList = rpt[i].destination == list[i].destination && rpt[i].type == list[i].type && rpt[i].origin == list[i].origin;
		if (!sameList) {
			violation("C09", "replay/history-differs", "after replaying " + str((int) list.size()) + " recorded transition(s) the replica's previousTransitions() holds " + str((int) rpt.count()) + " entries / different entries", x);
			return;
		}
	}
	if (rs2.active != x.after.active) {
		std::string a1, a2;
		for (int s = 0; s < N; ++s) { if (x.after.active[s]) a1 += " S" + str(s); if (rs2.active[s]) a2 += " S" + str(s); }
		// witness of the known finding: a scheduling request of a vetoed round took effect (C04: scheduling applies regardless)
		// but, being part of a vetoed round, is not recorded - a later resume / resumable region then resolves differently on the replica
		bool schedVetoed = false;
		for (const Tagged& t : seq) if (t.q.kind == T_SCHEDULE && t.status == 2) schedVetoed = true;
		if (schedVetoed)
			violation("C09", "replay/config/schedule-of-a-vetoed-round-took-effect", "replica after replaying the recorded transitions is in {" + a2 + " }, the authority in {" + a1 + " }; the step contains a scheduling request in a vetoed round", x);
		else
		violation("C09", rs.size() > 1 ? "replay/config-multi-round" : "replay/config", "replica after replaying the recorded transitions is in {" + a2 + " }, the authority in {" + a1 + " }", x);
		return;
	}
	bool sched = false;
	for (auto& g : groups) for (const Rq& q : g) if (q.kind == T_SCHEDULE) sched = true;
	bool guardIssued = false;
	for (size_t g = 1; g < groups.size(); ++g) if (!groups[g].empty()) guardIssued = true;
	if (rs.size() <= 1 && !guardIssued && !initial && !sched && rs2.resumable != x.after.resumable) { violation("C09", "replay/resumable", "replica and authority differ in resumable sub-states after a single-round, schedule-free step", x); return; }
}
#endif

// ---- C10 (a)(c): per reachable state - storage pre-fill independence and copies -------------------------------------
template <typename FSM> void Explorer<FSM>::perState(const Node& n) {
#if VT_UTILITY && !VT_USE_SCRIPT_RNG
	if ((props & P_C11) && n.activated && states <= 12) {
		// a copy is used after its original is gone (built-in generator). Touching freed memory is destructive, so the
		// experiment runs in a forked child; the child reports the number of sanitizer reports through its exit status.
		fflush(stdout); fflush(stderr);
		int fds[2] = {-1, -1};
		if (pipe(fds) != 0) return;
		const pid_t pid = fork();
		if (pid == 0) {
			close(fds[0]);
			Runner r;
			r.env.monitoring = false;
			for (const Step& s : n.hist) r.apply(s, opt.fill);
			void* mem2 = aligned_alloc(alignof(typename E::Instance) < sizeof(void*) ? sizeof(void*) : alignof(typename E::Instance), Runner::memSize());
			auto* copy = new (mem2) typename E::Instance(*r.fsm);
			r.destroy();  // original destroyed, its storage freed
			const long san0 = sanErrors();
			copy->immediateRandomize((hfsm2::StateID) 0);
			copy->update();
			// only a child that got here without any sanitizer report says 'K' (a deadly signal ends it before)
			if (sanErrors() == san0) { const char k = 'K'; if (write(fds[1], &k, 1) != 1) _exit(4); }
			_exit(0);
		}
		close(fds[1]);
		char got = 0;
		const bool clean = read(fds[0], &got, 1) == 1 && got == 'K';
		close(fds[0]);
		int status = 0;
		waitpid(pid, &status, 0);
		++compared;
		++counters["c11_copy_after_destroy"];
		if (!clean)
			E::R().violation("C11", "sanitizer/copy-used-after-original-destroyed", "a copy of an instance with the built-in generator touches freed memory once the original is destroyed (it references the original's generator)", n.hist);
	}
#endif
#if VT_PLANS
	if ((props & (P_C06 | P_C14 | P_C10)) && n.activated && n.key.find("|P") == std::string::npos && n.key.find("|M") == std::string::npos && opt.mode == "plans") planScenarios(n);
#endif
#if VT_LOG
	if (props & P_C16) {
		// attaching or detaching a logger never changes behaviour: every base edge with and without the logger
		const unsigned savedProps = props;
		for (const Op& op : baseAlphabet(n)) {
			Exec a, b;
			props = P_C16; noMonitors = true; run(n, Step{op, {}}, a);
			noLogger = true; run(n, Step{op, {}}, b); noLogger = false; noMonitors = false;
			props = savedProps;
			++compared;
			bool same = a.keyAfter == b.keyAfter && a.trace.size() == b.trace.size();
			for (size_t i = 0; same && i < a.trace.size(); ++i) same = a.trace[i].state == b.trace[i].state && a.trace[i].meth == b.trace[i].meth && a.trace[i].a == b.trace[i].a && a.trace[i].b == b.trace[i].b;
			if (!same) violation("C16", "logger/changes-behaviour", "the same step behaves differently with and without an attached logger", a);
			if (!b.log.empty()) violation("C16", "logger/detached-still-called", "a detached logger received reports", b);
		}
	}
#endif
	if (!(props & P_C10)) return;
	auto sameRun = [&](const Exec& a, const Exec& b) {
		if (a.keyAfter != b.keyAfter || a.trace.size() != b.trace.size() || a.after.active != b.after.active || a.after.resumable != b.after.resumable) return false;
		for (size_t i = 0; i < a.trace.size(); ++i) { const TraceEv& p = a.trace[i]; const TraceEv& q = b.trace[i]; if (p.state != q.state || p.meth != q.meth || p.layer != q.layer || p.a != q.a || p.b != q.b || p.ctl != q.ctl) return false; }
		return true;
	};
	const unsigned savedProps = props;
	for (const Op& op : baseAlphabet(n)) {
		if (op.type == OP_IMMEDIATE && op.r[0].kind > T_RESUME && (op.r[0].state % 3)) continue;  // thin out the less basic kinds
		Exec ref;
		props = 0;
		const unsigned char f0 = opt.fill;
		opt.fill = 0x00; run(n, Step{op, {}}, ref);
		for (unsigned char f : {(unsigned char) 0xFF, (unsigned char) 0xA5}) {
			Exec y;
			opt.fill = f; run(n, Step{op, {}}, y);
			++compared;
			if (!sameRun(ref, y)) { props = savedProps; violation("C10", "fill/behaviour-depends-on-prior-memory", "the same history behaves differently when the instance is constructed in memory pre-filled with 0x" + std::string(f == 0xFF ? "FF" : "A5") + " instead of 0x00", y); props = 0; }
		}
		opt.fill = f0;
		// (c) copy of the instance continues exactly as the original would
		if (n.activated) copyCheck(n, op, ref);
		props = savedProps;
	}
}

template <typename FSM> void Explorer<FSM>::copyCheck(const Node& n, const Op& op, const Exec& ref) {
	Runner r;
	r.env.monitoring = false;
	for (const Step& s : n.hist) r.apply(s, opt.fill);
	void* mem2 = aligned_alloc(alignof(typename E::Instance) < sizeof(void*) ? sizeof(void*) : alignof(typename E::Instance), Runner::memSize());
	memset(mem2, 0x5A, Runner::memSize());
	const size_t t0 = r.env.trace.size();
	auto* copy = new (mem2) typename E::Instance(*r.fsm);
	if (r.env.trace.size() != t0) { Exec e = ref; violation("C10", "copy/callbacks-during-copy", "copy construction invoked user callbacks", e); }
	// run the step on the copy
	typename E::Instance* orig = r.fsm;
	const std::string answersOrig = r.answers();
	r.fsm = copy;
	if (r.answers() != answersOrig) { Exec e = ref; violation("C10", "copy/answers-differ", "right after copy construction the copy answers differently from its original (isActive/isResumable, previousTransitions(), lastTransitionTo(), structure report): " + r.answers() + " vs " + answersOrig, e); }
	const std::string keyCopyBefore = r.key();
	Step st{op, {}};
	const size_t t1 = r.env.trace.size();
	r.apply(st, opt.fill);
	const size_t t2 = r.env.trace.size();
	const std::string keyCopyAfter = r.key();
	const Snap sc = r.snap();
	r.fsm = orig;
	const std::string keyOrigAfter = r.key();
	// ... and the original must go on as if the copy did not exist
	const size_t t3 = r.env.trace.size();
	r.apply(st, opt.fill);
	const size_t t4 = r.env.trace.size();
	bool origSame = r.key() == ref.keyAfter && (t4 - t3) == (ref.stepEnd - ref.stepBegin);
	if (origSame)
		for (size_t i = 0; i < t4 - t3; ++i) { const TraceEv& p = r.env.trace[t3 + i]; const TraceEv& q = ref.trace[ref.stepBegin + i]; if (p.state != q.state || p.meth != q.meth || p.a != q.a || p.b != q.b) { origSame = false; break; } }
	++compared;
	++counters["c10_copy_steps"];
	bool same = keyCopyBefore == ref.keyBefore && keyCopyAfter == ref.keyAfter && sc.active == ref.after.active && sc.resumable == ref.after.resumable && (t2 - t1) == (ref.stepEnd - ref.stepBegin);
	if (same)
		for (size_t i = 0; i < t2 - t1; ++i) { const TraceEv& p = r.env.trace[t1 + i]; const TraceEv& q = ref.trace[ref.stepBegin + i]; if (p.state != q.state || p.meth != q.meth || p.a != q.a || p.b != q.b) { same = false; break; } }
	if (!same) { Exec e = ref; violation("C10", "copy/diverges", "a copy of the instance does not continue as the original would on " + op.text() + " (copy: " + keyCopyBefore + " -> " + keyCopyAfter + ", original: " + ref.keyBefore + " -> " + ref.keyAfter + ")", e); }
	else if (keyOrigAfter != ref.keyBefore) { Exec e = ref; violation("C10", "copy/aliases-original", "stepping the copy changed the original (" + ref.keyBefore + " -> " + keyOrigAfter + ")", e); }
	else if (!origSame) {
		Exec e = ref;
		const bool drew = [&]() { for (size_t i = t1; i < t2; ++i) if (r.env.trace[i].meth == M_RANK) return true; return false; }();
		violation("C10", std::string("copy/original-affected-by-copy") + ((!VT_USE_SCRIPT_RNG && drew) ? "/shared-built-in-generator" : ""), "after its copy performed " + op.text() + ", the original no longer behaves as it would have without the copy", e);
	}
	// callbacks of the copy must run on the copy's own state objects
	for (size_t i = t1; i < t2; ++i) {
		const TraceEv& e = r.env.trace[i];
		if (e.meth <= M_PLAN_FAILED && e.layer == 0 && e.state >= 0 && E::named(e.state) && e.self != vt_access(*copy, e.state)) { Exec ee = ref; violation("C10", "copy/this", "a callback of the copy ran on an object that is not the copy's own state", ee); break; }
	}
#if VT_MANUAL
	if (copy->isActive()) copy->exit();
#endif
	copy->~InstanceT();
	free(mem2);
}

#if VT_PLANS
// plan scenarios: from a plan-free quiescent state, attach tasks (every single task, every ordered pair in one region,
// pairs across two regions), optionally set an external mark, then step with every choice vector within the bound.
template <typename FSM> void Explorer<FSM>::planScenarios(const Node& n) {
	std::vector<Op> labels;
	for (int s = 0; s < N; ++s) {
		if (E::D(s).region < 0 || E::D(s).width < 1) continue;
		const int w = E::D(s).width, R = E::D(s).region;
		const int c0 = E::child(s, 0), c1 = E::child(s, w > 1 ? 1 : 0), c2 = E::child(s, w > 2 ? 2 : 0);
		auto mk = [&](int kind, int o, int d) { Op op; op.type = OP_PLAN_APPEND; op.arg = (int16_t) R; op.r[0] = Req{(int8_t) kind, (int16_t) o}; op.r[1] = Req{0, (int16_t) d}; labels.push_back(op); };
		mk(T_CHANGE, c0, c1); mk(T_RESTART, c1, c0); mk(T_CHANGE, c0, c0); mk(T_RESUME, c0, c2);
		if (opt.tier == "thorough") { mk(T_SCHEDULE, c1, c1); mk(T_CHANGE, c1, s == 0 ? c2 : 0); }
	}
	std::vector<std::vector<Op>> setups;
	setups.push_back({});
	for (const Op& a : labels) setups.push_back({a});
	for (const Op& a : labels) for (const Op& b : labels) if (a.arg == b.arg || opt.tier == "thorough") setups.push_back({a, b});
	std::deque<Node> sink;
	const int savedBatch = opt.batch;
	for (const std::vector<Op>& setup : setups) {
		if (timeUp()) break;
		Node m = n;
		bool act = n.activated;
		for (const Op& o : setup) { m.hist.push_back(Step{o, {}}); act = activationAfter(act, o); }
		m.key.clear();	// key after the setup is recomputed by the first run
		m.depth = n.depth + (int) setup.size();
		for (int which = 0; which < 2; ++which) {
			Op step; step.type = which ? OP_REACT : OP_UPDATE;
			exploreStep(m, step, sink, opt.dev);
			sink.clear();
		}
		if ((props & P_C10) && !setup.empty()) {
			// C10 (a) for plan storage: the same setup + step on instances constructed in memory pre-filled with 0x00 / 0xFF / 0xA5
			// (tasks with and without payload live in the instance's own storage) must behave identically
			const unsigned savedProps = props;
			const unsigned char f0 = opt.fill;
			for (int which = 0; which < 2; ++which) {
				Op step; step.type = which ? OP_REACT : OP_UPDATE;
				Exec ref;
				props = 0;
				opt.fill = 0x00; run(m, Step{step, {}}, ref);
				for (unsigned char f : {(unsigned char) 0xFF, (unsigned char) 0xA5}) {
					Exec y;
					opt.fill = f; run(m, Step{step, {}}, y);
					++compared;
					++counters["c10_plan_fill_runs"];
					bool same = ref.keyAfter == y.keyAfter && ref.trace.size() == y.trace.size() && ref.after.active == y.after.active && ref.after.resumable == y.after.resumable;
					for (size_t i = 0; same && i < ref.trace.size(); ++i) { const TraceEv& a = ref.trace[i]; const TraceEv& b = y.trace[i]; same = a.state == b.state && a.meth == b.meth && a.layer == b.layer && a.a == b.a && a.b == b.b && a.ctl == b.ctl; }
					if (!same) { props = savedProps; violation("C10", "fill/plan-behaviour-depends-on-prior-memory", "the same plan setup and step behave differently when the instance is constructed in memory pre-filled with 0x" + std::string(f == 0xFF ? "FF" : "A5") + " instead of 0x00 (" + ref.keyAfter + " vs " + y.keyAfter + ")", y); props = 0; }
				}
			}
			opt.fill = f0;
			props = savedProps;
		}
		++counters["c06_plan_scenarios"];
	}
	opt.batch = savedBatch;
}
#endif

// ---- after the fixpoint: C08 (all ordered pairs of reachable states), C10 (b) interleaved instances ------------------
template <typename FSM> void Explorer<FSM>::finish() {
#if VT_STRUCT
	if (props & P_C16) {
		// activityHistory() recurrence incl. saturation: a 300-step deterministic tail, one report update per step
		Runner r;
		r.env.monitoring = false;
		Step c; c.op.type = OP_CONSTRUCT; r.apply(c, 0);
#if VT_MANUAL
		Step en; en.op.type = OP_ENTER; r.apply(en, 0);
#endif
		std::vector<int> prev(N, 0);
		for (int s = 0; s < N; ++s) prev[s] = r.fsm->activityHistory()[s];
		History h{c};
		for (int k = 0; k < 300; ++k) {
			Step st; st.op.type = OP_IMMEDIATE; st.op.n = 1;
			const int target = (k / 7) % 2 ? (N > 2 ? 2 : 1) : 1;  // dwell 7 steps, then move: both signs saturate and flip
			st.op.r[0] = Req{(int8_t) T_CHANGE, (int16_t) (k < 280 ? 1 : target)};
			r.apply(st, 0);
			if (h.size() < 6) h.push_back(st);
			++compared;
			for (int s = 0; s < N; ++s) {
				const bool act = r.fsm->isActive((hfsm2::StateID) s);
				const int old = prev[s];
				const int want = act ? (old < 0 ? 1 : std::min(old + 1, 127)) : (old > 0 ? -1 : std::max(old - 1, -128));
				const int got = r.fsm->activityHistory()[s];
				if (got != want) { E::R().violation("C16", "activity/recurrence", "step " + str(k) + " of the tail: activityHistory()[" + str(s) + "] went from " + str(old) + " to " + str(got) + ", expected " + str(want), h); k = 300; break; }
				prev[s] = got;
			}
		}
		++counters["c16_activity_tail_steps"];
	}
#endif
#if VT_SERIAL
	if (props & P_C08) checkC08();
#endif
	if (props & P_C10) {
		// (b) two instances of one type driven by different histories, interleaved step by step: each must behave as alone
		std::vector<const Node*> shortNodes;
		for (const Node& n : allNodes) if (n.hist.size() <= (opt.tier == "thorough" ? 4u : 3u)) shortNodes.push_back(&n);
		if (shortNodes.size() > 60) shortNodes.resize(60);
		for (const Node* a : shortNodes)
			for (const Node* b : shortNodes) {
				if (a == b) continue;
				Runner ra, rb;
				ra.env.monitoring = rb.env.monitoring = false;
				const size_t m = std::max(a->hist.size(), b->hist.size());
				for (size_t i = 0; i < m; ++i) {
					if (i < a->hist.size()) ra.apply(a->hist[i], 0x00);
					if (i < b->hist.size()) rb.apply(b->hist[i], 0xFF);
				}
				++compared;
				++counters["c10_interleavings"];
				if (ra.key() != a->key || rb.key() != b->key) {
					Exec e; e.hist = &a->hist; e.step = a->hist.empty() ? Step{} : a->hist.back();
					E::R().violation("C10", "interleave/instances-interfere", "two instances driven by different histories, interleaved, do not reach the states they reach alone", a->hist, "other history: " + historyEnc(b->hist));
				}
			}
	}
}

#if VT_SERIAL
template <typename FSM> void Explorer<FSM>::checkC08() {
	using SerialBuffer = typename E::Instance::SerialBuffer;
	const size_t cap = opt.tier == "thorough" ? 2500 : 500;
	std::vector<const Node*> nodes;
	for (const Node& n : allNodes) nodes.push_back(&n);
	if (nodes.size() > cap) { counters["c08_nodes_capped_at"] = (long) cap; nodes.resize(cap); }
	if ((long) SerialBuffer::BIT_CAPACITY != VT_COUNTS.serialBits) E::R().violation("C08", "buffer/bit-capacity", "SerialBuffer::BIT_CAPACITY=" + str((long) SerialBuffer::BIT_CAPACITY) + " but the structure needs " + str(VT_COUNTS.serialBits) + " bits", History{});
	auto heapBuf = []() { void* m = malloc(sizeof(SerialBuffer)); memset(m, 0xCD, sizeof(SerialBuffer)); return new (m) SerialBuffer; };
	for (const Node* src : nodes) {
		if (timeUp()) break;
		Runner a;
		a.env.monitoring = false;
		for (const Step& s : src->hist) a.apply(s, opt.fill);
		if (!a.fsm) continue;
#if !VT_MANUAL
		if (!a.machineActive()) continue;
#endif
		const std::string ka = a.key();
		const size_t ta = a.env.trace.size();
		SerialBuffer* buf = heapBuf();
		a.fsm->save(*buf);
		if (a.key() != ka || a.env.trace.size() != ta) E::R().violation("C08", "save/not-const", "save() changed the instance or invoked callbacks", src->hist);
		{	// a buffer may be reused: what save() writes does not depend on what the buffer held before
			for (const int fill : {0xFF, 0x5A}) {
				SerialBuffer* dirty = heapBuf();
				memset(dirty->data(), fill, sizeof(typename SerialBuffer::Data));
				a.fsm->save(*dirty);
				++counters["c08_saves_into_used_buffers"];
				if (memcmp(buf->data(), dirty->data(), sizeof(typename SerialBuffer::Data)) != 0)
					E::R().violation("C08", "save/depends-on-previous-buffer-content", "save() into a buffer that previously held other data (all bytes " + str(fill) + ") gives a different buffer than save() into a fresh one (state " + src->key + ")", src->hist);
				dirty->~SerialBuffer(); free(dirty);
			}
		}
		const Snap sa = a.snap();
		for (const Node* dst : nodes) {
			Runner b;
			b.env.monitoring = false;
			for (const Step& s : dst->hist) b.apply(s, opt.fill);
			if (!b.fsm) continue;
#if !VT_MANUAL
			if (!b.machineActive()) continue;
#endif
			const Snap sb0 = b.snap();
			const size_t tb = b.env.trace.size();
			b.env.beginStep({}, N);
			b.fsm->load(*buf);
			const Snap sb = b.snap();
			++compared;
			++transitions;
			History h = dst->hist;
			auto fail = [&](const std::string& fp, const std::string& msg) {
				E::R().violation("C08", fp, msg + " (source state " + src->key + ", destination state " + dst->key + ")", h, "source history: " + historyEnc(src->hist) + " | load trace: " + E::traceText(b.env.trace, tb, 60));
			};
			if (sb.active != sa.active) { fail("load/config", "after load() the active configuration differs from the saved one"); continue; }
			if (sb.resumable != sa.resumable) { fail("load/resumable", "after load() the resumable sub-states differ from the saved ones"); continue; }
			// lifecycle: exit for every state that stops being active, enter for every state that becomes active
			std::vector<uint8_t> gotExit(N, 0), gotEnter(N, 0);
			bool guard = false;
			for (size_t i = tb; i < b.env.trace.size(); ++i) { const TraceEv& e = b.env.trace[i]; if (e.layer) continue; if (e.meth == M_EXIT) gotExit[e.state] = 1; if (e.meth == M_ENTER) gotEnter[e.state] = 1; if (e.meth == M_ENTRY_GUARD || e.meth == M_EXIT_GUARD) guard = true; }
			bool lifeOk = true;
			for (int s = 0; s < N && lifeOk; ++s) {
				if (!E::named(s) || E::D(s).lite) continue;
				if (sb0.active[s] && !sa.active[s] && !gotExit[s]) { fail("load/exit-missing", "S" + str(s) + " stopped being active on load() without exit()"); lifeOk = false; }
				else if (!sb0.active[s] && sa.active[s] && !gotEnter[s]) { fail("load/enter-missing", "S" + str(s) + " became active on load() without enter()"); lifeOk = false; }
			}
			if (!lifeOk) continue;
			(void) guard;
			SerialBuffer* buf2 = heapBuf();
			b.fsm->save(*buf2);
			if (memcmp(buf->data(), buf2->data(), sizeof(typename SerialBuffer::Data)) != 0) fail("save/round-trip", "saving the loaded instance does not reproduce the buffer bit for bit");
			buf2->~SerialBuffer(); free(buf2);
			// the loading instance's complete lifecycle stays balanced up to destruction
			Exec x; x.hist = &dst->hist;
#if VT_MANUAL
			if (b.machineActive()) b.fsm->exit();
#endif
			b.destroy();
			std::vector<uint8_t> entered(N, 0);
			bool bal = true;
			for (const TraceEv& e : b.env.trace) {
				if (e.layer || e.state < 0) continue;
				if (e.meth == M_ENTER) { if (entered[e.state]) bal = false; entered[e.state] = 1; }
				if (e.meth == M_EXIT) { if (!entered[e.state]) bal = false; entered[e.state] = 0; }
			}
			for (int s = 0; s < N; ++s) if (entered[s]) bal = false;
			if (!bal) fail("load/lifecycle-unbalanced", "enter/exit callbacks of the loading instance are not balanced over its life");
		}
		buf->~SerialBuffer(); free(buf);
	}
	counters["c08_nodes"] = (long) nodes.size();
}
#endif

}  // namespace vt
