// Engine part 4: property monitors that plug into the explorer.
#pragma once
#include "engine/refmodel.hpp"

namespace vt {

template <typename FSM>
unsigned Explorer<FSM>::propsFromString(const std::string& p) {
	unsigned m = 0;
	std::stringstream ss(p);
	std::string t;
	while (std::getline(ss, t, ',')) {
		if (t == "C01") m |= P_C01; else if (t == "C02") m |= P_C02; else if (t == "C03") m |= P_C03; else if (t == "C04") m |= P_C04;
		else if (t == "C05") m |= P_C05; else if (t == "C06") m |= P_C06; else if (t == "C08") m |= P_C08; else if (t == "C09") m |= P_C09;
		else if (t == "C10") m |= P_C10; else if (t == "C11") m |= P_C11; else if (t == "C13") m |= P_C13; else if (t == "C14") m |= P_C14;
		else if (t == "C15") m |= P_C15; else if (t == "C16") m |= P_C16;
	}
	return m;
}

// the independent descriptor must agree with what the library registered at construction (run-time half of C17;
// a mismatch here would make every other oracle meaningless, so it is checked before any exploration)
template <typename FSM>
bool Explorer<FSM>::selfCheck() {
	Runner r;
	Step c; c.op.type = OP_CONSTRUCT;
	r.env.monitoring = false;
	r.apply(c, 0);
	const auto& reg = r.fsm->_core.registry;
	bool ok = true;
	auto bad = [&](const std::string& what) {
		ok = false;
		E::R().violation("C17", "runtime/" + what, "descriptor mismatch: " + what, History{c});
	};
	if ((int) FSM::Instance::STATE_COUNT != VT_COUNTS.states) bad("STATE_COUNT");
	if ((int) FSM::Instance::REGION_COUNT != VT_COUNTS.regions) bad("REGION_COUNT");
	if ((int) FSM::Args::COMPO_COUNT != VT_COUNTS.compo) bad("COMPO_COUNT");
	if ((int) FSM::Args::ORTHO_COUNT != VT_COUNTS.ortho) bad("ORTHO_COUNT");
	if ((int) FSM::Args::ORTHO_UNITS != VT_COUNTS.units) bad("ORTHO_UNITS");
	for (int s = 0; s < N && ok; ++s) {
		const auto par = reg.stateParents[s];
		const StateDesc& d = E::D(s);
		if (d.parent < 0) { if (par) bad("root-parent"); continue; }
		const StateDesc& pd = E::D(d.parent);
		const int fork = pd.kind == K_ORTHO ? -(pd.ortho + 1) : (pd.compo + 1);
		if ((int) par.forkId != fork || (int) par.prong != d.prong) bad("stateParents[" + str(s) + "]");
	}
	for (int s = 0; s < N && ok; ++s) {
		const StateDesc& d = E::D(s);
		if (d.region < 0) continue;
		if ((int) reg.regionHeads[d.region] != s) bad("regionHeads[" + str(d.region) + "]");
		if ((int) reg.regionSizes[d.region] != d.size) bad("regionSizes[" + str(d.region) + "]");
	}
	return ok;
}

template <typename FSM>
int Explorer<FSM>::replay(const std::string& enc) {
	// enc: steps separated by ';'
	History h;
	std::stringstream ss(enc);
	std::string part;
	while (std::getline(ss, part, ';')) { Step s; if (!Step::decode(part, s)) { fprintf(stderr, "bad replay step '%s'\n", part.c_str()); return 2; } h.push_back(s); }
	if (h.empty()) return 2;
	Node node{History(h.begin(), h.end() - 1), "", (int) h.size() - 1, false};
	bool act = false;
	for (const Step& s : node.hist) act = activationAfter(act, s.op);
	node.activated = act;
	Exec x;
	for (int round = 0; round < 2; ++round) {
		Exec y;
		run(node, h.back(), y);
		process(node, y);
		if (round == 0) x = y;
		else if (y.keyAfter != x.keyAfter || y.trace.size() != x.trace.size()) { printf("{\"type\":\"engine_error\",\"message\":\"replay is not deterministic\"}\n"); return 2; }
	}
	printf("history: %s\n", historyJson(h).c_str());
	printf("state before: %s\nstate after : %s\n", x.keyBefore.c_str(), x.keyAfter.c_str());
	printf("step trace  : %s\n", E::traceText(x.trace, x.stepBegin, 400).c_str());
	printf("active after:");
	for (int s = 0; s < N; ++s) if (x.after.active[s]) printf(" S%d", s);
	printf("\nresumable   :");
	for (int s = 0; s < N; ++s) if (x.after.resumable[s]) printf(" S%d", s);
	printf("\nviolations reported: %ld\n", E::R().total);
	return E::R().total ? 1 : 0;
}

template <typename FSM> void Explorer<FSM>::inCallbackMore(int, int, int, void*) {}
template <typename FSM> void Explorer<FSM>::liveChecks(Runner&, Exec&) {}
template <typename FSM> void Explorer<FSM>::afterExec(const Node& node, Exec& x) {
	if (props & P_C02) checkC02(node, x);
}

// ---- C02: reference semantics on every edge ----------------------------------------------------------
template <typename FSM>
void Explorer<FSM>::checkC02(const Node& node, Exec& x) {
	const Op& op = x.step.op;
	if (!x.activatedBefore) return;
	if (!(op.type == OP_IMMEDIATE || op.type == OP_BATCH || op.type == OP_UPDATE || op.type == OP_REACT || op.type == OP_RESET)) return;
	struct Rq { int kind, dest, origin; };
	std::vector<Rq> reqs;
	bool cancel = false, planAct = false, guardSeen = false;
	int round1 = 0, later = 0, lifecycle = 0;
	for (size_t i = x.stepBegin; i < x.stepEnd; ++i) {
		const TraceEv& e = x.trace[i];
		switch (e.meth) {
		case E_REQUEST: reqs.push_back(Rq{e.a, e.b, e.state}); if (e.a != T_SCHEDULE || true) { if (guardSeen) ++later; else ++round1; } break;
		case E_CANCEL: cancel = true; break;
		case E_SUCCEED: case E_FAIL: case M_PLAN_SUCCEEDED: case M_PLAN_FAILED: case E_PLAN_APPEND: case E_PLAN_CLEAR: planAct = true; break;
		case M_ENTRY_GUARD: case M_EXIT_GUARD: guardSeen = true; break;
		case M_ENTER: case M_EXIT: case M_REENTER: ++lifecycle; break;
		default: break;
		}
	}
	if (cancel || planAct) { ++counters["c02_skipped_veto_or_plan"]; return; }
	if (round1 > VT_COUNTS.compo || later > VT_COUNTS.compo) { ++counters["c02_skipped_over_capacity"]; return; }
	if (op.type == OP_RESET) {
		// reset() == first activation: same configuration, nothing resumable, same enter sequence
		if (!x.step.script.empty()) return;
		bool same = x.after.active == initialSnap.active;
		bool anyRes = false;
		for (int s = 0; s < N; ++s) anyRes = anyRes || x.after.resumable[s];
		std::vector<int> enters;
		for (size_t i = x.stepBegin; i < x.stepEnd; ++i) if (x.trace[i].meth == M_ENTER && x.trace[i].layer == 0) enters.push_back(x.trace[i].state);
		if (!same) violation("C02", "reset/config", "reset() did not re-activate the machine in its initial configuration", x);
		else if (anyRes) violation("C02", "reset/resumable", "a sub-state is still reported resumable after reset()", x);
		else if (enters != initialEnters) violation("C02", "reset/enter-sequence", "reset() enters states in a different order than the first activation", x);
		++compared;
		return;
	}
	if (reqs.empty()) {
		// processing with no pending request changes nothing
		if (x.keyAfter != x.keyBefore) violation("C02", "empty-step/state", "a step without requests changed the state (" + x.keyBefore + " -> " + x.keyAfter + ")", x);
		else if (lifecycle) violation("C02", "empty-step/lifecycle", "a step without requests ran lifecycle callbacks", x);
		++compared;
		return;
	}
	RefModel<FSM> m;
	m.init(x.before);
	const std::vector<Choice>& sc = x.step.script;
	auto answer = [&sc](int state, uint8_t meth) { for (const Choice& c : sc) if (c.key.state == state && c.key.meth == meth && c.key.occ == 0xFFFF) return (int) c.alt; return 0; };
	m.selectOf = [&](int s) { return E::named(s) ? answer(s, M_SELECT) : 0; };
#if VT_UTILITY
	m.utilityOf = [&](int s) { return E::named(s) ? E::UTIL_MENU[answer(s, M_UTILITY)] : 0.0f; };  // anonymous heads report utility 0
	m.rankOf = [&](int s) { return E::named(s) ? E::RANK_MENU[answer(s, M_RANK)] : 0; };
	if (answer(-1, E_RNG) >= RNG_EXACT) { ++counters["c02_skipped_inexact_random"]; return; }
	m.rnd = RNG_MENU[answer(-1, E_RNG)];
#else
	m.utilityOf = [](int) { return 1.0f; };
	m.rankOf = [](int) { return 0; };
#endif
	for (const Rq& r : reqs) m.request(r.kind, r.dest);
	m.commit();
	if (m.randomFellOff) { ++counters["c02_skipped_random_rounding"]; return; }
	++compared;
	++counters["c02_edges_compared"];
	int nns = 0;
	Rq lastNs{0, 0, 0};
	for (const Rq& r : reqs) if (r.kind != T_SCHEDULE) { ++nns; lastNs = r; }
	auto isAncestorOrSelf = [](int a, int s) { for (int t = s; t >= 0; t = E::D(t).parent) if (t == a) return true; return false; };
	auto activeChain = [&](int d) { for (int t = d; t >= 0; t = E::D(t).parent) if (!x.after.active[t]) return false; return true; };
	std::string exp, got;
	for (int s = 0; s < N; ++s) { if (m.activeAfter(s)) exp += " S" + str(s); if (x.after.active[s]) got += " S" + str(s); }
	// --- configuration
	int bad = -1;
	for (int s = 0; s < N && bad < 0; ++s) if (m.activeAfter(s) != (x.after.active[s] != 0)) bad = s;
	if (nns <= 1) {
		// single transition request (plus scheduling requests): full functional equality with the reference semantics
		if (bad >= 0) {
			const std::string fp = m.usedSelectOnRegion ? std::string("config/select-into-region") : std::string("single/") + KIND_NAMES[lastNs.kind];
			violation("C02", fp, "after " + op.text() + " the active configuration is {" + got + " } but the rules prescribe {" + exp + " } (first difference at S" + str(bad) + ")", x);
			return;
		}
	} else {
		// batches: the statement-level clauses (DESIGN 3.4 (i)-(iii)); agreement with the map model is only counted
		if (bad >= 0) ++counters["c02_batch_model_differs_observed"];
		if (!m.usedSelectOnRegion) {
			// (i) the last request always wins
			if (!activeChain(lastNs.dest)) {
				violation("C02", "batch/last-request-loses", "after " + op.text() + " the destination S" + str(lastNs.dest) + " of the LAST request (or one of its ancestors) is not active; active: {" + got + " }", x);
				return;
			}
			// (ii) an earlier destination stays unless a later request conflicts with it
			for (size_t i = 0; i + 1 < reqs.size(); ++i) {
				if (reqs[i].kind == T_SCHEDULE) continue;
				bool conflict = false;
				for (size_t j = i + 1; j < reqs.size() && !conflict; ++j) {
					if (reqs[j].kind == T_SCHEDULE) continue;
					const int d1 = reqs[i].dest, d2 = reqs[j].dest;
					if (isAncestorOrSelf(d2, d1)) { conflict = true; break; }	// re-targets a region containing d1
					// paths diverge at a composite-style ancestor
					for (int t = d1; E::D(t).parent >= 0 && !conflict; t = E::D(t).parent) {
						const int a = E::D(t).parent;
						if (!E::isCompo(a)) continue;
						if (isAncestorOrSelf(a, d2) && d2 != a) {
							int u = d2; while (E::D(u).parent != a) u = E::D(u).parent;
							if (u != t) conflict = true;
						}
					}
					// d2 below d1: d1 is re-resolved along d2's path, still active
				}
				if (!conflict && !activeChain(reqs[i].dest)) {
					violation("C02", "batch/earlier-request-lost", "after " + op.text() + " the destination S" + str(reqs[i].dest) + " of an earlier, non-conflicting request is not active; active: {" + got + " }", x);
					return;
				}
			}
		}
	}
	// (iii) regions no request touches keep their sub-state (all batch sizes)
	{
		std::vector<uint8_t> touchedRegion(N, 0);
		for (const Rq& r : reqs) {
			if (r.kind == T_SCHEDULE) { if (E::D(r.dest).parent >= 0) touchedRegion[E::D(r.dest).parent] = 1; continue; }
			if (r.dest == 0) { std::fill(touchedRegion.begin(), touchedRegion.end(), 1); break; }
			// composite ancestors of the destination, and everything inside the sub-tree of the nearest composite ancestor's child
			int top = r.dest;
			for (int t = r.dest; E::D(t).parent >= 0; t = E::D(t).parent) { touchedRegion[E::D(t).parent] = 1; }
			while (E::D(top).parent >= 0 && !E::isCompo(E::D(top).parent)) top = E::D(top).parent;
			// a switch of any ancestor exits/enters whole sub-trees: everything below a switched ancestor is touched as well
			for (int t = r.dest; E::D(t).parent >= 0; t = E::D(t).parent) {
				const int a = E::D(t).parent;
				if (E::isCompo(a) && x.before.activeSub[a] != E::D(t).prong) { top = t; for (int q = a + 1; q < a + E::D(a).size; ++q) touchedRegion[q] = 1; }
			}
			for (int q = top; q < top + E::D(top).size; ++q) touchedRegion[q] = 1;
		}
		for (int r = 0; r < N; ++r)
			if (E::isCompo(r) && !touchedRegion[r]) {
				bool sameRes = true;
				for (int p = 0; p < E::D(r).width; ++p) sameRes = sameRes && x.before.resumable[E::child(r, p)] == x.after.resumable[E::child(r, p)];
				if (x.before.activeSub[r] != x.after.activeSub[r] || x.before.active[r] != x.after.active[r] || !sameRes) {
					violation("C02", "untouched/changed", "after " + op.text() + " region S" + str(r) + ", which no request touches, changed its active or resumable sub-state", x);
					return;
				}
			}
	}
	// --- resumable marks: each region remembers the sub-state it last left (per the exit callbacks actually delivered)
	// or was given by schedule; policy (a): only judged when that sub-state is not the active one
	{
		std::vector<int> last(N, -2);
		for (size_t i = x.stepBegin; i < x.stepEnd; ++i) {
			const TraceEv& e = x.trace[i];
			if (e.meth == M_EXIT && e.layer == 0) {
				// attribute to every composite ancestor region for which this state is (inside) a direct child whose head it is
				const int s = e.state;
				int t = s;
				// climb through anonymous (headless) region heads that have no callback of their own
				while (true) {
					const int a = E::D(t).parent;
					if (a < 0) break;
					if (E::isCompo(a)) last[a] = E::D(t).prong;
					if (E::named(a)) break;	 // a named parent reports its own exit
					t = a;
				}
			} else if (e.meth == E_REQUEST && e.a == T_SCHEDULE) {
				const int a = E::D(e.b).parent;
				if (a >= 0 && E::isCompo(a)) last[a] = E::D(e.b).prong;
			}
		}
		for (int r = 0; r < N; ++r) {
			if (!E::isCompo(r)) continue;
			int before = -1, after = -1, nAfter = 0;
			for (int p = 0; p < E::D(r).width; ++p) {
				if (x.before.resumable[E::child(r, p)]) before = p;
				if (x.after.resumable[E::child(r, p)]) { after = p; ++nAfter; }
			}
			const int L = last[r] != -2 ? last[r] : before;
			if (nAfter > 1) { violation("C02", "resumable/two-marks", "two sub-states of S" + str(r) + " are reported resumable", x); return; }
			if (L >= 0 && x.after.active[r] && L == x.after.activeSub[r]) continue;
			if (after != L) {
				std::string fp = "resumable/other";
				if (x.before.active[r] && x.after.active[r] && x.before.activeSub[r] != x.after.activeSub[r] && L == x.before.activeSub[r]) fp = "resumable/switch-not-recorded";
				else if (last[r] == -2) fp = "resumable/unchanged-region-changed";
				violation("C02", fp, "after " + op.text() + " region S" + str(r) + " reports sub-state #" + str(after) + " resumable, expected #" + str(L) +
						  " (the one it last left / was scheduled)", x);
				return;
			}
		}
	}
}

template <typename FSM> void Explorer<FSM>::extraOps(const Node&, std::vector<Op>&) const {}
template <typename FSM> void Explorer<FSM>::perState(const Node&) {}
template <typename FSM> void Explorer<FSM>::finish() {}

}  // namespace vt
