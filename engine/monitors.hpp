// Engine part 4: property monitors that plug into the explorer.
#pragma once

namespace vt {

template <typename FSM>
unsigned Explorer<FSM>::propsFromString(const std::string& p) {
	unsigned m = 0;
	std::stringstream ss(p);
	std::string t;
	while (std::getline(ss, t, ',')) {
		if (t == "C01") m |= P_C01; else if (t == "C02") m |= P_C02; else if (t == "C03") m |= P_C03; else if (t == "C04") m |= P_C04;
		else if (t == "C05") m |= P_C05; else if (t == "C06") m |= P_C06; else if (t == "C08") m |= P_C08; else if (t == "C09") m |= P_C09;
		else if (t == "C10") m |= P_C10; else if (t == "C11") m |= P_C11; else if (t == "C13") m |= P_C13; else if (t == "C14") m |= P_C14;
		else if (t == "C15") m |= P_C15; else if (t == "C16") m |= P_C16;
	}
	return m;
}

// the independent descriptor must agree with what the library registered at construction (run-time half of C17;
// a mismatch here would make every other oracle meaningless, so it is checked before any exploration)
template <typename FSM>
bool Explorer<FSM>::selfCheck() {
	Runner r;
	Step c; c.op.type = OP_CONSTRUCT;
	r.env.monitoring = false;
	r.apply(c, 0);
	const auto& reg = r.fsm->_core.registry;
	bool ok = true;
	auto bad = [&](const std::string& what) {
		ok = false;
		E::R().violation("C17", "runtime/" + what, "descriptor mismatch: " + what, History{c});
	};
	if ((int) FSM::Instance::STATE_COUNT != VT_COUNTS.states) bad("STATE_COUNT");
	if ((int) FSM::Instance::REGION_COUNT != VT_COUNTS.regions) bad("REGION_COUNT");
	if ((int) FSM::Args::COMPO_COUNT != VT_COUNTS.compo) bad("COMPO_COUNT");
	if ((int) FSM::Args::ORTHO_COUNT != VT_COUNTS.ortho) bad("ORTHO_COUNT");
	if ((int) FSM::Args::ORTHO_UNITS != VT_COUNTS.units) bad("ORTHO_UNITS");
	for (int s = 0; s < N && ok; ++s) {
		const auto par = reg.stateParents[s];
		const StateDesc& d = E::D(s);
		if (d.parent < 0) { if (par) bad("root-parent"); continue; }
		const StateDesc& pd = E::D(d.parent);
		const int fork = pd.kind == K_ORTHO ? -(pd.ortho + 1) : (pd.compo + 1);
		if ((int) par.forkId != fork || (int) par.prong != d.prong) bad("stateParents[" + str(s) + "]");
	}
	for (int s = 0; s < N && ok; ++s) {
		const StateDesc& d = E::D(s);
		if (d.region < 0) continue;
		if ((int) reg.regionHeads[d.region] != s) bad("regionHeads[" + str(d.region) + "]");
		if ((int) reg.regionSizes[d.region] != d.size) bad("regionSizes[" + str(d.region) + "]");
	}
	return ok;
}

template <typename FSM>
int Explorer<FSM>::replay(const std::string& enc) {
	// enc: steps separated by ';'
	History h;
	std::stringstream ss(enc);
	std::string part;
	while (std::getline(ss, part, ';')) { Step s; if (!Step::decode(part, s)) { fprintf(stderr, "bad replay step '%s'\n", part.c_str()); return 2; } h.push_back(s); }
	if (h.empty()) return 2;
	Node node{History(h.begin(), h.end() - 1), "", (int) h.size() - 1, false};
	bool act = false;
	for (const Step& s : node.hist) act = activationAfter(act, s.op);
	node.activated = act;
	Exec x;
	for (int round = 0; round < 2; ++round) {
		Exec y;
		run(node, h.back(), y);
		process(node, y);
		if (round == 0) x = y;
		else if (y.keyAfter != x.keyAfter || y.trace.size() != x.trace.size()) { printf("{\"type\":\"engine_error\",\"message\":\"replay is not deterministic\"}\n"); return 2; }
	}
	printf("history: %s\n", historyJson(h).c_str());
	printf("state before: %s\nstate after : %s\n", x.keyBefore.c_str(), x.keyAfter.c_str());
	printf("step trace  : %s\n", E::traceText(x.trace, x.stepBegin, 400).c_str());
	printf("active after:");
	for (int s = 0; s < N; ++s) if (x.after.active[s]) printf(" S%d", s);
	printf("\nresumable   :");
	for (int s = 0; s < N; ++s) if (x.after.resumable[s]) printf(" S%d", s);
	printf("\nviolations reported: %ld\n", E::R().total);
	return E::R().total ? 1 : 0;
}

template <typename FSM> void Explorer<FSM>::inCallbackMore(int, int, int, void*) {}
template <typename FSM> void Explorer<FSM>::liveChecks(Runner&, Exec&) {}
template <typename FSM> void Explorer<FSM>::afterExec(const Node&, Exec&) {}
template <typename FSM> void Explorer<FSM>::extraOps(const Node&, std::vector<Op>&) const {}
template <typename FSM> void Explorer<FSM>::perState(const Node&) {}
template <typename FSM> void Explorer<FSM>::finish() {}

}  // namespace vt
