// Engine part 2 (included by every generated program after FSM, the probe states and VT_DESC are defined):
// environment actions, runner, canonical state key, explorer (BFS over quiescent states x deviation-bounded
// DFS inside a step), monitors, main().
#pragma once
#include <algorithm>
#include <chrono>
#include <deque>
#include <functional>
#include <map>
#include <set>
#include <sstream>
#include <unordered_map>
#include <unordered_set>

namespace vt {

// ---------------------------------------------------------------------------------------------------
// small utilities

inline std::string jesc(const std::string& s) {
	std::string o;
	for (char c : s) {
		if (c == '"' || c == '\\') { o += '\\'; o += c; }
		else if (c == '\n') o += "\\n";
		else if ((unsigned char) c < 0x20) { char b[8]; snprintf(b, sizeof b, "\\u%04x", c); o += b; }
		else o += c;
	}
	return o;
}
template <typename T> inline std::string str(const T& v) { std::ostringstream o; o << v; return o.str(); }

struct BreakLog { long count = 0; const char* file = ""; int line = 0; };
inline BreakLog& breaks() { static BreakLog b; return b; }

static const char* const KIND_NAMES[] = {"changeTo", "restart", "resume", "select", "utilize", "randomize", "schedule"};
enum { T_CHANGE = 0, T_RESTART, T_RESUME, T_SELECT, T_UTILIZE, T_RANDOMIZE, T_SCHEDULE, T_COUNT };

// ---------------------------------------------------------------------------------------------------
// API operations

enum OpType : uint8_t {
	OP_CONSTRUCT,  // placement-construct the instance (Automatic: performs the initial activation)
	OP_ENTER, OP_EXIT,  // manual activation only
	OP_UPDATE, OP_REACT, OP_QUERY,
	OP_IMMEDIATE,  // immediate<kind>(state)
	OP_BATCH,	   // queue n requests, then update()
	OP_RESET,
	OP_SUCCEED, OP_FAIL,  // external succeed(state) / fail(state)
	OP_PLAN_APPEND,	 // external plan(region).append: r[0]={kind, origin}, r[1]={0,dest}, arg=region
	OP_PLAN_CLEAR,	 // arg=region
	// capacity alphabets (C11)
	OP_BURST,		 // queue n requests of kind r[0].kind to destinations r[0].state, +1, ... (cyclic), then update()
	OP_FLOOD_UPDATE, // update() in which every active state requests a transition
	OP_PLAN_FLOOD,	 // append n tasks to the plan of region arg
	OP_REPLAY_FLOOD, // replayTransitions() with a list of n transitions
	OP_COUNT
};
static const char* const OP_NAMES[] = {"construct", "enter", "exit", "update", "react", "query", "immediate", "batch", "reset",
									   "succeed", "fail", "planAppend", "planClear", "burst", "floodUpdate", "planFlood", "replayFlood"};

struct Req { int8_t kind; int16_t state; };
struct Op {
	uint8_t type = OP_UPDATE;
	uint8_t n = 0;
	int16_t arg = 0;
	Req r[3] = {{0, 0}, {0, 0}, {0, 0}};
	std::string text() const {
		std::string s = OP_NAMES[type];
		if (type == OP_IMMEDIATE) s = std::string("immediate:") + KIND_NAMES[r[0].kind] + "(" + str(r[0].state) + ")";
		else if (type == OP_BATCH) {
			s = "batch[";
			for (int i = 0; i < n; ++i) s += std::string(i ? "," : "") + KIND_NAMES[r[i].kind] + "(" + str(r[i].state) + ")";
			s += "];update";
		} else if (type == OP_SUCCEED || type == OP_FAIL) s += "(" + str(arg) + ")";
		else if (type == OP_PLAN_APPEND) s += "(region " + str(arg) + ": " + KIND_NAMES[r[0].kind] + " " + str(r[0].state) + "->" + str(r[1].state) + ")";
		else if (type == OP_PLAN_CLEAR) s += "(region " + str(arg) + ")";
		else if (type == OP_BURST) s = "burst[" + str((int) n) + " x " + KIND_NAMES[r[0].kind] + " from S" + str(r[0].state) + "];update";
		else if (type == OP_PLAN_FLOOD) s += "(region " + str(arg) + ", " + str((int) n) + " tasks)";
		else if (type == OP_REPLAY_FLOOD) s += "(" + str((int) n) + " transitions)";
		return s;
	}
};

struct Step {
	Op op;
	std::vector<Choice> script;
	// compact text form  type,n,arg,k0,s0,k1,s1,k2,s2/state,meth,layer,occ,alt/...
	std::string encode() const {
		std::ostringstream o;
		o << (int) op.type << "," << (int) op.n << "," << op.arg;
		for (int i = 0; i < 3; ++i) o << "," << (int) op.r[i].kind << "," << op.r[i].state;
		for (const Choice& c : script) o << "/" << c.key.state << "," << (int) c.key.meth << "," << (int) c.key.layer << "," << c.key.occ << "," << c.alt;
		return o.str();
	}
	static bool decode(const std::string& s, Step& out) {
		std::vector<std::string> parts;
		size_t p = 0;
		while (true) { size_t q = s.find('/', p); parts.push_back(s.substr(p, q == std::string::npos ? q : q - p)); if (q == std::string::npos) break; p = q + 1; }
		auto ints = [](const std::string& t) { std::vector<long> v; std::stringstream ss(t); std::string x; while (std::getline(ss, x, ',')) v.push_back(atol(x.c_str())); return v; };
		auto h = ints(parts[0]);
		if (h.size() != 9) return false;
		out.op.type = (uint8_t) h[0]; out.op.n = (uint8_t) h[1]; out.op.arg = (int16_t) h[2];
		for (int i = 0; i < 3; ++i) { out.op.r[i].kind = (int8_t) h[3 + 2 * i]; out.op.r[i].state = (int16_t) h[4 + 2 * i]; }
		out.script.clear();
		for (size_t i = 1; i < parts.size(); ++i) {
			auto c = ints(parts[i]);
			if (c.size() != 5) return false;
			out.script.push_back(Choice{PointKey{(int16_t) c[0], (uint8_t) c[1], (uint8_t) c[2], (uint16_t) c[3]}, (uint16_t) c[4]});
		}
		return true;
	}
	std::string json() const {
		std::string s = "{\"op\":\"" + op.text() + "\",\"deviations\":[";
		for (size_t i = 0; i < script.size(); ++i) {
			const Choice& c = script[i];
			s += std::string(i ? "," : "") + "\"S" + str(c.key.state) + "." + METH_NAMES[c.key.meth] + (c.key.layer ? "@inj" + str((int) c.key.layer) : "") +
				 (c.key.occ == 0xFFFF ? "" : "#" + str(c.key.occ)) + "=alt" + str(c.alt) + "\"";
		}
		return s + "],\"enc\":\"" + encode() + "\"}";
	}
};
using History = std::vector<Step>;

inline std::string historyJson(const History& h) {
	std::string s = "[";
	for (size_t i = 0; i < h.size(); ++i) s += (i ? "," : "") + h[i].json();
	return s + "]";
}
inline std::string historyEnc(const History& h) {
	std::string s;
	for (size_t i = 0; i < h.size(); ++i) s += (i ? ";" : "") + h[i].encode();
	return s;
}

// ---------------------------------------------------------------------------------------------------
// run options

struct Options {
	std::string prop = "C01";
	std::string tier = "quick";
	int dev = 1;			  // deviation bound per step
	int batch = 2;			  // batch size bound
	double deadline = 600;	  // seconds
	long maxStates = 200000;  // hard cap on BFS states (reported when hit)
	std::string replay;
	unsigned classes = CLS_REQ | CLS_GUARD | CLS_CONSUME | CLS_SELECT;
	bool verbose = false;
	unsigned char fill = 0x00;
	bool devImmediate = false;  // callback deviations also on immediate/reset ops
	bool common = false;		// restrict the driven alphabet to the feature-independent subset (C15)
	bool immReduced = false;	// ... but only the reduced menus, and only on change/restart/resume ops
	std::string mode;			// property-specific sub-mode
	bool marks = false;			// external succeed()/fail() calls are part of the alphabet (always in mode "plans")
	bool initialCancel = false;	// guards may veto the substitution rounds of the first activation (never its very first pass)
};

// a snapshot of what the public API reports (+ raw registry through the probe)
struct Snap {
	bool machineActive = false;
	std::vector<uint8_t> active, resumable;	 // per state
	std::vector<int> activeSub;				 // per state (regions), -1 invalid
	std::vector<int> rawActive, rawResumable;	 // per composite region
	bool transientClear = true;
	// plans (only with HFSM2_ENABLE_PLANS)
	struct TaskInfo { int origin, dest, kind, slot; bool payload; int tag; };
	std::vector<std::vector<TaskInfo>> plans;  // per region id
	std::vector<uint8_t> planExists;			 // per region id
	std::vector<uint8_t> succMark, failMark;	 // per state
};

// ---------------------------------------------------------------------------------------------------

template <typename FSM>
struct Engine {
	using Instance = typename FSM::Instance;
	using Args = typename FSM::Args;
	using ConstControl = hfsm2::detail::ConstControlT<Args>;
	using Control = hfsm2::detail::ControlT<Args>;
	using PlanControl = hfsm2::detail::PlanControlT<Args>;
	using FullControl = hfsm2::detail::FullControlT<Args>;
	using GuardControl = hfsm2::detail::GuardControlT<Args>;
	using EventControl = hfsm2::detail::EventControlT<Args>;
	using Transition = typename Instance::Transition;
	using TType = hfsm2::TransitionType;

	static constexpr int N = VT_STATE_COUNT;
	static constexpr bool MANUAL = VT_MANUAL;

	// ---- static engine state --------------------------------------------------------------------
	struct Globals {
		Options opt;
		std::vector<Action> menuFull, menuEvent, menuGuard, menuGuardInitial, menuLife, menuPlanResult;
		int redFull = 0, redEvent = 0, redGuard = 0, redGuardInitial = 0, redLife = 0, redPlanResult = 0;
		bool inInitial = false;	 // inside the very first activation (no cancel allowed there)
		bool flood = false;		 // every update() callback requests a transition (capacity alphabet)
		bool hiddenInKey = false;  // C11: the task pool's internal cursors are part of the state key
		std::function<void(int /*cbKind*/, int /*state*/, int /*meth*/, void* /*control*/)> inCallback;
	};
	static Globals& G() { static Globals g; return g; }
	static const StateDesc& D(int s) { return VT_DESC[s]; }
	static bool isRegion(int s) { return D(s).kind != K_LEAF; }
	static bool isCompo(int s) { return D(s).kind <= K_RANDOM; }
	static bool isOrtho(int s) { return D(s).kind == K_ORTHO; }
	static int child(int s, int prong) {  // id of the prong-th child of region s
		int c = D(s).first;
		for (int i = 0; i < prong; ++i) c += D(c).size;
		return c;
	}
	static bool named(int s) { return !D(s).headless; }
	static bool utilityOn() { return VT_UTILITY; }
	// anonymous heads answer select() with INVALID_PRONG and utility 0: select / randomize through headless regions are
	// outside the documented preconditions, so programs with headless composite-style regions do not use those kinds
	static bool hasHeadlessCompo() { for (int s = 0; s < N; ++s) if (isCompo(s) && D(s).headless) return true; return false; }
	static bool hasHeadless() { for (int s = 0; s < N; ++s) if (D(s).headless) return true; return false; }
	// select() through a headless composite-style region and a weighted draw among sub-states that include a headless region
	// (utility 0) are outside the documented preconditions
	static bool kindAllowed(int k) {
		if (k == T_UTILIZE || k == T_RANDOMIZE) { if (!utilityOn() || G().opt.common) return false; }
		if (hasHeadlessCompo() && k == T_SELECT) return false;
		if (hasHeadless() && k == T_RANDOMIZE) return false;
		return true;
	}

	// ---- menus ----------------------------------------------------------------------------------
	static void buildMenus() {
		Globals& g = G();
		const unsigned cls = g.opt.classes;
		auto addReqs = [&](std::vector<Action>& m, uint8_t type, bool reducedOnly) {
			if (!reducedOnly) return;
			for (int k : {T_CHANGE, T_RESTART, T_RESUME})
				for (int s = 0; s < N; ++s) m.push_back(Action{type, (int16_t) k, (int16_t) s, 0, 0});
		};
		auto addRest = [&](std::vector<Action>& m, uint8_t type) {
			for (int kk : {T_SELECT, T_UTILIZE, T_RANDOMIZE, T_SCHEDULE}) {
				if (!kindAllowed(kk)) continue;
				for (int s = (kk == T_SCHEDULE ? 1 : 0); s < N; ++s) m.push_back(Action{type, (int16_t) kk, (int16_t) s, 0, 0});
			}
		};
		auto planEdits = [&](std::vector<Action>& m) {
#if VT_PLANS
			if (!(cls & CLS_PLANEDIT)) return;
			m.push_back(Action{A_PLAN_CLEAR, 0, 0, 0, 0});
			// tasks between the first few sub-states of the current region are generated at run time (see performPlanEdit)
			for (int i = 0; i < 6; ++i) m.push_back(Action{A_PLAN_APPEND, (int16_t) i, 0, 0, 0});
#endif
		};
		// full control (update family): reduced part first
		for (std::vector<Action>* mp : {&g.menuFull, &g.menuEvent}) {
			std::vector<Action>& m = *mp;
			m.push_back(Action{A_NONE, 0, 0, 0, 0});
			if (cls & CLS_REQ) addReqs(m, A_REQ, true);
#if VT_PLANS
			if (cls & CLS_STATUS) { m.push_back(Action{A_SUCCEED, 0, 0, 0, 0}); m.push_back(Action{A_FAIL, 0, 0, 0, 0}); }
#endif
			if (mp == &g.menuEvent && (cls & CLS_CONSUME)) m.push_back(Action{A_CONSUME, 0, 0, 0, 0});
			(mp == &g.menuFull ? g.redFull : g.redEvent) = (int) m.size();
			if (cls & CLS_REQ) addRest(m, A_REQ);
			planEdits(m);
		}
		for (std::vector<Action>* mp : {&g.menuGuard, &g.menuGuardInitial}) {
			std::vector<Action>& m = *mp;
			const bool initial = mp == &g.menuGuardInitial;
			m.push_back(Action{A_NONE, 0, 0, 0, 0});
			if (cls & CLS_GUARD) {
				if (!initial) {
					m.push_back(Action{A_CANCEL, 0, 0, 0, 0});
					addReqs(m, A_CANCEL_REQ, true);
				}
				addReqs(m, A_REQ, true);
				(initial ? g.redGuardInitial : g.redGuard) = (int) m.size();
				if (!initial) addRest(m, A_CANCEL_REQ);
				addRest(m, A_REQ);
			} else
				(initial ? g.redGuardInitial : g.redGuard) = 1;
		}
		g.menuLife.push_back(Action{A_NONE, 0, 0, 0, 0});
		planEdits(g.menuLife);
		g.redLife = (int) g.menuLife.size();
		g.menuPlanResult.push_back(Action{A_NONE, 0, 0, 0, 0});
		if (cls & CLS_PLANRESULT) {
			g.menuPlanResult.push_back(Action{A_SWALLOW, 0, 0, 0, 0});
			g.redPlanResult = 2;
			addReqs(g.menuPlanResult, A_SWALLOW_REQ, true);
		} else
			g.redPlanResult = 1;
	}

	// ---- issuing requests through a control -----------------------------------------------------
	template <typename TC>
	static void issue(TC& c, Env& e, int origin, int kind, int dest) {
		const int tag = e.stepTag * 64 + e.reqSeq++;
#if VT_HAS_PAYLOAD
		const bool with = tag % 3 != 2;
		e.rec(origin, E_REQUEST, 0, -1, nullptr, kind, dest, with ? tag : -1);
		if (with) {
			const Pay p = makePay(tag);
			switch (kind) {
			case T_CHANGE: c.changeWith((hfsm2::StateID) dest, p); break;
			case T_RESTART: c.restartWith((hfsm2::StateID) dest, p); break;
			case T_RESUME: c.resumeWith((hfsm2::StateID) dest, p); break;
			case T_SELECT: c.selectWith((hfsm2::StateID) dest, p); break;
#if VT_UTILITY
			case T_UTILIZE: c.utilizeWith((hfsm2::StateID) dest, p); break;
			case T_RANDOMIZE: c.randomizeWith((hfsm2::StateID) dest, p); break;
#endif
			case T_SCHEDULE: c.scheduleWith((hfsm2::StateID) dest, p); break;
			}
			return;
		}
#else
		e.rec(origin, E_REQUEST, 0, -1, nullptr, kind, dest, -1);
#endif
		switch (kind) {
		case T_CHANGE: c.changeTo((hfsm2::StateID) dest); break;
		case T_RESTART: c.restart((hfsm2::StateID) dest); break;
		case T_RESUME: c.resume((hfsm2::StateID) dest); break;
		case T_SELECT: c.select((hfsm2::StateID) dest); break;
#if VT_UTILITY
		case T_UTILIZE: c.utilize((hfsm2::StateID) dest); break;
		case T_RANDOMIZE: c.randomize((hfsm2::StateID) dest); break;
#endif
		case T_SCHEDULE: c.schedule((hfsm2::StateID) dest); break;
		}
	}

	template <typename TC>
	static void performPlanEdit(TC& c, Env& e, int id, const Action& a) {
#if VT_PLANS
		// the plan of the region the callback runs in (control.plan())
		auto plan = c.plan();
		if (a.type == A_PLAN_CLEAR) {
			e.rec(id, E_PLAN_CLEAR, 0, -1, nullptr, 0, 0, 0, plan._regionId);
			plan.clear();
			return;
		}
		// A_PLAN_APPEND variant a.a in 0..5: tasks among the first sub-states of that region
		const int region = plan._regionId;
		int head = -1;
		for (int s = 0; s < N; ++s) if (D(s).region == region) head = s;
		if (head < 0 || D(head).width < 1) return;
		const int w = D(head).width;
		const int c0 = child(head, 0), c1 = child(head, w > 1 ? 1 : 0), c2 = child(head, w > 2 ? 2 : 0);
		int kind = T_CHANGE, o = c0, d = c1;
		switch (a.a) {
		case 0: o = c0; d = c1; break;
		case 1: o = c1; d = c0; break;
		case 2: o = c1; d = c2; kind = T_RESTART; break;
		case 3: o = c0; d = c0; break;						// cyclic
		case 4: o = c0; d = c1; kind = T_RESUME; break;		// second task for the same origin, other kind
		case 5: o = c1; d = c1; kind = T_SCHEDULE; break;
		}
		bool ok = false;
		const int tag = e.stepTag * 64 + e.reqSeq++;
#if VT_HAS_PAYLOAD
		if (tag % 3 != 2) {
			const Pay p = makePay(tag);
			switch (kind) {
			case T_CHANGE: ok = plan.changeWith((hfsm2::StateID) o, (hfsm2::StateID) d, p); break;
			case T_RESTART: ok = plan.restartWith((hfsm2::StateID) o, (hfsm2::StateID) d, p); break;
			case T_RESUME: ok = plan.resumeWith((hfsm2::StateID) o, (hfsm2::StateID) d, p); break;
			case T_SCHEDULE: ok = plan.scheduleWith((hfsm2::StateID) o, (hfsm2::StateID) d, p); break;
			}
			e.rec(id, E_PLAN_APPEND, 0, tag, nullptr, kind, o, d, region * 2 + (ok ? 1 : 0));
			return;
		}
#endif
		switch (kind) {
		case T_CHANGE: ok = plan.change((hfsm2::StateID) o, (hfsm2::StateID) d); break;
		case T_RESTART: ok = plan.restart((hfsm2::StateID) o, (hfsm2::StateID) d); break;
		case T_RESUME: ok = plan.resume((hfsm2::StateID) o, (hfsm2::StateID) d); break;
		case T_SCHEDULE: ok = plan.schedule((hfsm2::StateID) o, (hfsm2::StateID) d); break;
		}
		(void) tag;
		e.rec(id, E_PLAN_APPEND, 0, -1, nullptr, kind, o, d, region * 2 + (ok ? 1 : 0));
#endif
	}

	template <typename TC>
	static void performFull(TC& c, Env& e, int id, const Action& a) {
		switch (a.type) {
		case A_NONE: break;
		case A_REQ: issue(c, e, id, a.a, a.b); break;
#if VT_PLANS
		case A_SUCCEED: e.rec(id, E_SUCCEED, 0, -1, nullptr); c.succeed(); break;
		case A_FAIL: e.rec(id, E_FAIL, 0, -1, nullptr); c.fail(); break;
#endif
		case A_PLAN_APPEND: case A_PLAN_CLEAR: performPlanEdit(c, e, id, a); break;
		default: break;
		}
	}

	// ---- callback entry points ------------------------------------------------------------------
	enum CbKind { CB_FULL, CB_EVENT, CB_GUARD, CB_LIFE, CB_QUERY, CB_ANSWER, CB_PLANRESULT };

	static void full(int id, Meth m, int layer, const void* self, FullControl& c) {
		NoCount nc;
		Env& e = *c.context();
		e.rec(id, m, (uint8_t) layer, c.stateId(), self);
		if (e.monitoring && G().inCallback) G().inCallback(CB_FULL, id, m, &c);
		if (layer) return;
		Globals& g = G();
		if (g.flood) { if (m == M_UPDATE) issue(c, e, id, T_CHANGE, id); return; }
		const int alt = e.choose(id, m, 0, (int) g.menuFull.size(), g.redFull, false, N);
		performFull(c, e, id, g.menuFull[alt]);
	}
	static void event(int id, Meth m, int layer, const void* self, const Ev&, EventControl& c) {
		NoCount nc;
		Env& e = *c.context();
		e.rec(id, m, (uint8_t) layer, c.stateId(), self);
		if (e.monitoring && G().inCallback) G().inCallback(CB_EVENT, id, m, &c);
		if (layer) return;
		Globals& g = G();
		const int alt = e.choose(id, m, 0, (int) g.menuEvent.size(), g.redEvent, false, N);
		const Action& a = g.menuEvent[alt];
		if (a.type == A_CONSUME) { e.rec(id, E_CONSUME, 0, -1, nullptr, m); c.consumeEvent(); }
		else performFull(c, e, id, a);
	}
	static void guard(int id, Meth m, int layer, const void* self, GuardControl& c) {
		NoCount nc;
		Env& e = *c.context();
		e.rec(id, m, (uint8_t) layer, c.stateId(), self, (int) c.pendingTransitions().count(), c._cancelled ? 1 : 0, (int) c.currentTransitions().count());
		if (e.monitoring && G().inCallback) G().inCallback(CB_GUARD, id, m, &c);
		if (layer) return;
		Globals& g = G();
		// the very first guard pass of the first activation has nothing pending and must not be cancelled (documented precondition);
		// its substitution rounds evaluate requests like any other round and may be vetoed when --initial-cancel is given
		const bool restricted = g.inInitial && !(g.opt.initialCancel && c.pendingTransitions().count() > 0);
		const std::vector<Action>& menu = restricted ? g.menuGuardInitial : g.menuGuard;
		const int alt = e.choose(id, m, 0, (int) menu.size(), restricted ? g.redGuardInitial : g.redGuard, false, N);
		const Action& a = menu[alt];
		if (a.type == A_CANCEL || a.type == A_CANCEL_REQ) {
			e.rec(id, E_CANCEL, 0, -1, nullptr, m);
			c.cancelPendingTransitions();
			if (a.type == A_CANCEL_REQ) issue(c, e, id, a.a, a.b);
		} else if (a.type == A_REQ)
			issue(c, e, id, a.a, a.b);
	}
	static void life(int id, Meth m, int layer, const void* self, PlanControl& c) {
		NoCount nc;
		Env& e = *c.context();
		e.rec(id, m, (uint8_t) layer, c.stateId(), self);
		if (e.monitoring && G().inCallback) G().inCallback(CB_LIFE, id, m, &c);
		if (layer) return;
#if VT_PLANS
		Globals& g = G();
		if (g.menuLife.size() > 1) {
			const int alt = e.choose(id, m, 0, (int) g.menuLife.size(), g.redLife, false, N);
			if (alt) performPlanEdit(c, e, id, g.menuLife[alt]);
		}
#endif
	}
	static void query(int id, Meth m, int layer, const void* self, Qu& q, ConstControl& c) {
		NoCount nc;
		Env& e = *const_cast<Env*>(c.context());
		e.rec(id, m, (uint8_t) layer, c.stateId(), self);
		++q.visited;
		if (e.monitoring && G().inCallback) G().inCallback(CB_QUERY, id, m, &c);
		if (layer) return;
		if (e.classes & CLS_CONSUME) {
			const int alt = e.choose(id, m, 0, 2, 2, false, N);
			if (alt == 1) { e.rec(id, E_CONSUME, 0, -1, nullptr, m); c.consumeQuery(); }
		}
	}
	static hfsm2::Prong select(int id, const void* self, const Control& c) {
		NoCount nc;
		Env& e = *const_cast<Env*>(c.context());
		const int w = D(id).width;
		const int alt = (e.classes & CLS_SELECT) ? e.choose(id, M_SELECT, 0, w, w, true, N) : 0;
		e.rec(id, M_SELECT, 0, c.stateId(), self, alt);
		return (hfsm2::Prong) alt;
	}
#if VT_UTILITY
	static constexpr int RANK_MENU[3] = {0, 1, -1};
	static constexpr float UTIL_MENU[4] = {1.0f, 0.5f, 2.0f, 3.0f};
	static typename Args::Rank rank(int id, const void* self, const Control& c) {
		NoCount nc;
		Env& e = *const_cast<Env*>(c.context());
		const int alt = (e.classes & CLS_RANK) ? e.choose(id, M_RANK, 0, 3, 3, true, N) : 0;
		e.rec(id, M_RANK, 0, c.stateId(), self, alt);
		return (typename Args::Rank) RANK_MENU[alt];
	}
	static typename Args::Utility utility(int id, const void* self, const Control& c) {
		NoCount nc;
		Env& e = *const_cast<Env*>(c.context());
		const int alt = (e.classes & CLS_UTIL) ? e.choose(id, M_UTILITY, 0, 4, 4, true, N) : 0;
		e.rec(id, M_UTILITY, 0, c.stateId(), self, alt);
		return (typename Args::Utility) UTIL_MENU[alt];
	}
#endif
	// returns true when the default behaviour (propagate to the enclosing region) should run
	static bool planResult(int id, Meth m, const void* self, FullControl& c) {
		NoCount nc;
		Env& e = *c.context();
		e.rec(id, m, 0, c.stateId(), self);
		if (e.monitoring && G().inCallback) G().inCallback(CB_PLANRESULT, id, m, &c);
		Globals& g = G();
		const int alt = e.choose(id, m, 0, (int) g.menuPlanResult.size(), g.redPlanResult, false, N);
		const Action& a = g.menuPlanResult[alt];
		if (a.type == A_NONE) { e.rec(id, m == M_PLAN_SUCCEEDED ? E_SUCCEED : E_FAIL, 0, -1, nullptr, 1); return true; }  // a=1: propagated by the default handler
		if (a.type == A_SWALLOW_REQ) issue(c, e, id, a.a, a.b);
		return false;
	}

	// ---- recording logger -----------------------------------------------------------------------
	struct LogEv { uint8_t type; int a, b, c; float u; size_t at; };
	enum LogType : uint8_t { L_METHOD, L_TRANSITION, L_TASK_STATUS, L_PLAN_STATUS, L_CANCEL, L_SELECT_RES, L_UTILITY_RES, L_RANDOM_RES };
#if VT_LOG
	struct RecLogger : FSM::Logger {
		std::vector<LogEv> log;
		using Context = typename FSM::Logger::Context;
		void recordMethod(const Context& ctx, const hfsm2::StateID origin, const hfsm2::Method method) override { NoCount nc; log.push_back(LogEv{L_METHOD, origin, (int) method, 0, 0, ctx->trace.size()}); }
		void recordTransition(const Context& ctx, const hfsm2::StateID origin, const hfsm2::TransitionType t, const hfsm2::StateID target) override { NoCount nc; log.push_back(LogEv{L_TRANSITION, origin, (int) t, target, 0, ctx->trace.size()}); }
#if VT_PLANS
		void recordTaskStatus(const Context& ctx, const hfsm2::StateID region, const hfsm2::StateID origin, const hfsm2::StatusEvent ev) override { NoCount nc; log.push_back(LogEv{L_TASK_STATUS, region, origin, (int) ev, 0, ctx->trace.size()}); }
		void recordPlanStatus(const Context& ctx, const hfsm2::StateID region, const hfsm2::StatusEvent ev) override { NoCount nc; log.push_back(LogEv{L_PLAN_STATUS, region, (int) ev, 0, 0, ctx->trace.size()}); }
#endif
		void recordCancelledPending(const Context& ctx, const hfsm2::StateID origin) override { NoCount nc; log.push_back(LogEv{L_CANCEL, origin, 0, 0, 0, ctx->trace.size()}); }
		void recordSelectResolution(const Context& ctx, const hfsm2::StateID head, const hfsm2::Prong prong) override { NoCount nc; log.push_back(LogEv{L_SELECT_RES, head, prong, 0, 0, ctx->trace.size()}); }
#if VT_UTILITY
		void recordUtilityResolution(const Context& ctx, const hfsm2::StateID head, const hfsm2::Prong prong, const typename FSM::Logger::Utilty u) override { NoCount nc; log.push_back(LogEv{L_UTILITY_RES, head, prong, 0, (float) u, ctx->trace.size()}); }
		void recordRandomResolution(const Context& ctx, const hfsm2::StateID head, const hfsm2::Prong prong, const typename FSM::Logger::Utilty u) override { NoCount nc; log.push_back(LogEv{L_RANDOM_RES, head, prong, 0, (float) u, ctx->trace.size()}); }
#endif
	};
#else
	struct RecLogger { std::vector<LogEv> log; };
#endif

	// ---- runner: one real instance in harness-owned, exactly-sized storage ---------------------------
	struct Runner {
		Env env;
		Env* envPtr = nullptr;
		void* mem = nullptr;
		Instance* fsm = nullptr;
		RecLogger logger;
		bool useLogger = false;
#if VT_USE_SCRIPT_RNG
		ScriptRng rng;
#endif
		int stepNo = 0;

		Runner() { envPtr = &env; env.classes = G().opt.classes; env.engine = this; }
		Runner(const Runner&) = delete;
		~Runner() { destroy(); }

		static size_t memSize() { return (sizeof(Instance) + alignof(Instance) - 1) / alignof(Instance) * alignof(Instance); }

		void construct(unsigned char fill, const std::vector<Choice>& script) {
			destroy();
			mem = aligned_alloc(alignof(Instance) < sizeof(void*) ? sizeof(void*) : alignof(Instance), memSize());
			memset(mem, fill, memSize());
			env.stepTag = stepNo++;
			env.beginStep(script, N);
			env.rec(-1, E_API, 0, -1, nullptr, OP_CONSTRUCT);
			G().inInitial = !MANUAL;
#if VT_USE_SCRIPT_RNG
			rng.env = &env;
#if VT_LOG
			fsm = new (mem) Instance(envPtr, rng, useLogger ? &logger : nullptr);
#else
			fsm = new (mem) Instance(envPtr, rng);
#endif
#else
#if VT_LOG
			fsm = new (mem) Instance(envPtr, useLogger ? &logger : nullptr);
#else
			fsm = new (mem) Instance(envPtr);
#endif
#endif
			G().inInitial = false;
		}
		void destroy() {
			if (fsm) {
				env.rec(-1, E_API, 0, -1, nullptr, OP_COUNT);  // destruction marker
				fsm->~Instance();
				fsm = nullptr;
			}
			if (mem) { free(mem); mem = nullptr; }
		}
		bool machineActive() const { return fsm && fsm->_core.registry.isActive(); }

		static TType tt(int kind) {
			switch (kind) {
			case T_CHANGE: return TType::CHANGE; case T_RESTART: return TType::RESTART; case T_RESUME: return TType::RESUME;
			case T_SELECT: return TType::SELECT;
#if VT_UTILITY
			case T_UTILIZE: return TType::UTILIZE; case T_RANDOMIZE: return TType::RANDOMIZE;
#endif
			default: return TType::SCHEDULE;
			}
		}
		static int kindOf(TType t) {
			switch (t) {
			case TType::CHANGE: return T_CHANGE; case TType::RESTART: return T_RESTART; case TType::RESUME: return T_RESUME;
			case TType::SELECT: return T_SELECT;
#if VT_UTILITY
			case TType::UTILIZE: return T_UTILIZE; case TType::RANDOMIZE: return T_RANDOMIZE;
#endif
			case TType::SCHEDULE: return T_SCHEDULE;
			default: return -1;
			}
		}

		void queue(int kind, int s) {
			const int tag = env.stepTag * 64 + env.reqSeq++;
#if VT_HAS_PAYLOAD
			if (tag % 3 != 2) {
				env.rec(-1, E_REQUEST, 0, -1, nullptr, kind, s, tag);
				const Pay p = makePay(tag);
				switch (kind) {
				case T_CHANGE: fsm->changeWith((hfsm2::StateID) s, p); break;
				case T_RESTART: fsm->restartWith((hfsm2::StateID) s, p); break;
				case T_RESUME: fsm->resumeWith((hfsm2::StateID) s, p); break;
				case T_SELECT: fsm->selectWith((hfsm2::StateID) s, p); break;
#if VT_UTILITY
				case T_UTILIZE: fsm->utilizeWith((hfsm2::StateID) s, p); break;
				case T_RANDOMIZE: fsm->randomizeWith((hfsm2::StateID) s, p); break;
#endif
				case T_SCHEDULE: fsm->scheduleWith((hfsm2::StateID) s, p); break;
				}
				return;
			}
#endif
			(void) tag;
			env.rec(-1, E_REQUEST, 0, -1, nullptr, kind, s, -1);
			switch (kind) {
			case T_CHANGE: fsm->changeTo((hfsm2::StateID) s); break;
			case T_RESTART: fsm->restart((hfsm2::StateID) s); break;
			case T_RESUME: fsm->resume((hfsm2::StateID) s); break;
			case T_SELECT: fsm->select((hfsm2::StateID) s); break;
#if VT_UTILITY
			case T_UTILIZE: fsm->utilize((hfsm2::StateID) s); break;
			case T_RANDOMIZE: fsm->randomize((hfsm2::StateID) s); break;
#endif
			case T_SCHEDULE: fsm->schedule((hfsm2::StateID) s); break;
			}
		}
		void immediate(int kind, int s) {
			const int tag = env.stepTag * 64 + env.reqSeq++;
#if VT_HAS_PAYLOAD
			if (tag % 3 != 2 && kind != T_SCHEDULE) {
				env.rec(-1, E_REQUEST, 0, -1, nullptr, kind, s, tag);
				const Pay p = makePay(tag);
				switch (kind) {
				case T_CHANGE: fsm->immediateChangeWith((hfsm2::StateID) s, p); break;
				case T_RESTART: fsm->immediateRestartWith((hfsm2::StateID) s, p); break;
				case T_RESUME: fsm->immediateResumeWith((hfsm2::StateID) s, p); break;
				case T_SELECT: fsm->immediateSelectWith((hfsm2::StateID) s, p); break;
#if VT_UTILITY
				case T_UTILIZE: fsm->immediateUtilizeWith((hfsm2::StateID) s, p); break;
				case T_RANDOMIZE: fsm->immediateRandomizeWith((hfsm2::StateID) s, p); break;
#endif
				}
				return;
			}
#endif
			(void) tag;
			env.rec(-1, E_REQUEST, 0, -1, nullptr, kind, s, -1);
			switch (kind) {
			case T_CHANGE: fsm->immediateChangeTo((hfsm2::StateID) s); break;
			case T_RESTART: fsm->immediateRestart((hfsm2::StateID) s); break;
			case T_RESUME: fsm->immediateResume((hfsm2::StateID) s); break;
			case T_SELECT: fsm->immediateSelect((hfsm2::StateID) s); break;
#if VT_UTILITY
			case T_UTILIZE: fsm->immediateUtilize((hfsm2::StateID) s); break;
			case T_RANDOMIZE: fsm->immediateRandomize((hfsm2::StateID) s); break;
#endif
			case T_SCHEDULE: fsm->schedule((hfsm2::StateID) s); fsm->update(); break;  // there is no immediateSchedule
			}
		}

		int queryVisited = 0;
		void apply(const Step& st, unsigned char fill = 0) {
			const Op& op = st.op;
			if (op.type == OP_CONSTRUCT) { construct(fill, st.script); return; }
			env.stepTag = stepNo++;
			env.beginStep(st.script, N);
			env.rec(-1, E_API, 0, -1, nullptr, op.type);
			struct Window { Window() { ++allocState().active; } ~Window() { --allocState().active; } } window;
			switch (op.type) {
			case OP_ENTER:
#if VT_MANUAL
				G().inInitial = true; fsm->enter(); G().inInitial = false;
#endif
				break;
			case OP_EXIT:
#if VT_MANUAL
				fsm->exit();
#endif
				break;
			case OP_UPDATE: fsm->update(); break;
			case OP_REACT: { Ev ev{env.stepTag}; fsm->react(ev); break; }
			case OP_QUERY: { Qu q{env.stepTag, 0}; fsm->query(q); queryVisited = q.visited; break; }
			case OP_IMMEDIATE: immediate(op.r[0].kind, op.r[0].state); break;
			case OP_BATCH:
				for (int i = 0; i < op.n; ++i) queue(op.r[i].kind, op.r[i].state);
				fsm->update();
				break;
			case OP_RESET: fsm->reset(); break;
#if VT_PLANS
			case OP_SUCCEED: env.rec(-1, E_SUCCEED, 0, -1, nullptr, op.arg); fsm->succeed((hfsm2::StateID) op.arg); break;
			case OP_FAIL: env.rec(-1, E_FAIL, 0, -1, nullptr, op.arg); fsm->fail((hfsm2::StateID) op.arg); break;
			case OP_PLAN_APPEND: {
				auto plan = fsm->plan((hfsm2::RegionID) op.arg);
				bool ok = false;
				switch (op.r[0].kind) {
				case T_CHANGE: ok = plan.change((hfsm2::StateID) op.r[0].state, (hfsm2::StateID) op.r[1].state); break;
				case T_RESTART: ok = plan.restart((hfsm2::StateID) op.r[0].state, (hfsm2::StateID) op.r[1].state); break;
				case T_RESUME: ok = plan.resume((hfsm2::StateID) op.r[0].state, (hfsm2::StateID) op.r[1].state); break;
				case T_SELECT: ok = plan.select((hfsm2::StateID) op.r[0].state, (hfsm2::StateID) op.r[1].state); break;
#if VT_UTILITY
				case T_UTILIZE: ok = plan.utilize((hfsm2::StateID) op.r[0].state, (hfsm2::StateID) op.r[1].state); break;
				case T_RANDOMIZE: ok = plan.randomize((hfsm2::StateID) op.r[0].state, (hfsm2::StateID) op.r[1].state); break;
#endif
				case T_SCHEDULE: ok = plan.schedule((hfsm2::StateID) op.r[0].state, (hfsm2::StateID) op.r[1].state); break;
				}
				env.rec(-1, E_PLAN_APPEND, 0, -1, nullptr, op.r[0].kind, op.r[0].state, op.r[1].state, op.arg * 2 + (ok ? 1 : 0));
				break;
			}
			case OP_PLAN_CLEAR: env.rec(-1, E_PLAN_CLEAR, 0, -1, nullptr, 0, 0, 0, op.arg); fsm->plan((hfsm2::RegionID) op.arg).clear(); break;
#endif
			case OP_BURST:
				for (int i = 0; i < op.n; ++i) {
					int d = (op.r[0].state + i) % N;
					if (op.r[0].kind == T_SCHEDULE && d == 0) d = 1;
					queue(op.r[0].kind, d);
				}
				fsm->update();
				break;
			case OP_FLOOD_UPDATE: G().flood = true; fsm->update(); G().flood = false; break;
#if VT_PLANS
			case OP_PLAN_FLOOD: {
				auto plan = fsm->plan((hfsm2::RegionID) op.arg);
				int accepted = 0;
				for (int i = 0; i < op.n; ++i) if (plan.change((hfsm2::StateID) (1 + i % (N - 1)), (hfsm2::StateID) (1 + (i + 1) % (N - 1)))) ++accepted;
				env.rec(-1, E_PLAN_APPEND, 0, -1, nullptr, T_CHANGE, op.n, accepted, op.arg * 2 + 1);
				lastAccepted = accepted;
				break;
			}
#endif
#if VT_HISTORY
			case OP_REPLAY_FLOOD: {
				std::vector<Transition> list;
				{ NoCount nc; for (int i = 0; i < op.n; ++i) list.push_back(Transition{(hfsm2::StateID) (1 + i % (N - 1)), TType::CHANGE}); }
				fsm->replayTransitions(&list[0], (hfsm2::Short) list.size());
				break;
			}
#endif
			default: break;
			}
		}
		int lastAccepted = 0;

		// ---- observation ----------------------------------------------------------------------
		Snap snap() const {
			Snap s;
			s.active.assign(N, 0); s.resumable.assign(N, 0); s.activeSub.assign(N, -1);
			s.machineActive = machineActive();
			const auto& reg = fsm->_core.registry;
			for (int i = 0; i < N; ++i) {
				s.active[i] = fsm->isActive((hfsm2::StateID) i) ? 1 : 0;
				s.resumable[i] = fsm->isResumable((hfsm2::StateID) i) ? 1 : 0;
				if (isCompo(i)) { const hfsm2::Prong p = fsm->activeSubState((hfsm2::StateID) i); s.activeSub[i] = p == hfsm2::INVALID_PRONG ? -1 : (int) p; }
			}
			for (int c = 0; c < VT_COUNTS.compo; ++c) {
				s.rawActive.push_back(reg.compoActive[c] == hfsm2::INVALID_PRONG ? -1 : (int) reg.compoActive[c]);
				s.rawResumable.push_back(reg.compoResumable[c] == hfsm2::INVALID_PRONG ? -1 : (int) reg.compoResumable[c]);
				if (reg.compoRequested[c] != hfsm2::INVALID_PRONG) s.transientClear = false;
			}
			if (!transientOrthoClear()) s.transientClear = false;
#if VT_PLANS
			{
				auto& pd = const_cast<typename Instance::PlanData&>(fsm->_core.planData);
				s.plans.assign(VT_COUNTS.regions, {}); s.planExists.assign(VT_COUNTS.regions, 0);
				s.succMark.assign(N, 0); s.failMark.assign(N, 0);
				for (int r = 0; r < VT_COUNTS.regions; ++r) {
					s.planExists[r] = pd.planExists.get((hfsm2::Short) r) ? 1 : 0;
					int guard = 0;
					for (hfsm2::Long i = pd.taskBounds[r].first; i != hfsm2::INVALID_LONG && guard < 64; i = pd.taskLinks[i].next, ++guard) {
						const auto& t = pd.tasks[i];
						Snap::TaskInfo ti{(int) t.origin, (int) t.destination, kindOf(t.type), (int) i, false, -1};
#if VT_HAS_PAYLOAD
						if (t.payload()) { ti.payload = true; ti.tag = payTag(*t.payload()); }
#endif
						s.plans[r].push_back(ti);
					}
				}
				for (int i = 1; i < N; ++i) { s.succMark[i] = pd.tasksSuccesses.get((hfsm2::Short) i) ? 1 : 0; s.failMark[i] = pd.tasksFailures.get((hfsm2::Short) i) ? 1 : 0; }
			}
#endif
			return s;
		}
		bool transientOrthoClear() const {
			bool ok = true;
			auto& reg = const_cast<typename Instance::Registry&>(fsm->_core.registry);
#if VT_ORTHO_COUNT > 0
			for (int b = 0; b < VT_COUNTS.units * 8; ++b) if (reg.orthoRequested.get((hfsm2::Short) b)) ok = false;
#endif
			for (int c = 0; c < VT_COUNTS.compo; ++c) if (reg.compoRemains.get((hfsm2::Short) c)) ok = false;
			return ok;
		}

		// canonical key of the quiescent state (DESIGN.md 3.3)
		// every answer the public const interface gives (C10: a copy answers like its original)
		std::string answers() const {
			std::string k;
			if (!fsm) return "<none>";
			for (int s = 0; s < N; ++s) { k += fsm->isActive((hfsm2::StateID) s) ? 'A' : '.'; k += fsm->isResumable((hfsm2::StateID) s) ? 'r' : '.'; }
#if VT_HISTORY
			const auto& pt = fsm->previousTransitions();
			k += "|pt";
			for (unsigned i = 0; i < pt.count(); ++i) k += str((int) pt[i].type) + ":" + str((int) pt[i].destination) + ":" + str((int) pt[i].origin) + ",";
			k += "|lt";
			if (machineActive())
				for (int s = 0; s < N; ++s) { const auto* t = fsm->lastTransitionTo((hfsm2::StateID) s); k += t ? str((int) (t - &pt[0])) : std::string("-"); k += ','; }
#endif
#if VT_STRUCT
			k += "|st";
			const auto& st = fsm->structure();
			for (unsigned i = 0; i < st.count(); ++i) k += st[i].isActive ? '1' : '0';
			const auto& ah = fsm->activityHistory();
			for (unsigned i = 0; i < ah.count(); ++i) k += str((int) ah[i]) + ",";
#endif
			return k;
		}
		std::string key() const {
			std::string k;
			if (!fsm) return "<none>";
			const auto& core = fsm->_core;
			const auto& reg = core.registry;
			k += machineActive() ? 'A' : 'I';
			for (int c = 0; c < VT_COUNTS.compo; ++c) { k += (char) ('a' + (reg.compoActive[c] == hfsm2::INVALID_PRONG ? 26 : reg.compoActive[c])); k += (char) ('a' + (reg.compoResumable[c] == hfsm2::INVALID_PRONG ? 26 : reg.compoResumable[c])); }
			bool tr = false;
			for (int c = 0; c < VT_COUNTS.compo; ++c) if (reg.compoRequested[c] != hfsm2::INVALID_PRONG) tr = true;
			if (tr || !transientOrthoClear()) {
				k += "|T";
				for (int c = 0; c < VT_COUNTS.compo; ++c) k += (char) ('a' + (reg.compoRequested[c] == hfsm2::INVALID_PRONG ? 26 : reg.compoRequested[c]));
			}
			if (core.requests.count()) {
				k += "|Q";
				for (unsigned i = 0; i < core.requests.count(); ++i) { const auto& t = core.requests[i]; k += str((int) t.type) + ":" + str((int) t.destination) + ","; }
			}
#if VT_PLANS
			k += planKey();
			if (G().hiddenInKey) {
				// C11: the pool's internal cursors are not observable through the plan API, but a stale one is exactly what a later
				// capacity overrun grows from - states that differ in them are kept apart
				const auto& tl = fsm->_core.planData.tasks;
				if (tl._vacantHead || tl._vacantTail || tl._last || tl._count)
					k += "|H" + str((int) tl._vacantHead) + "," + str((int) tl._vacantTail) + "," + str((int) tl._last) + "," + str((int) tl._count);
			}
#endif
			return k;
		}
#if VT_PLANS
		std::string planKey() const {
			std::string k;
			const auto& pd = fsm->_core.planData;
			for (int r = 0; r < VT_COUNTS.regions; ++r) {
				auto& pdm = const_cast<typename Instance::PlanData&>(pd);
				const bool ex = pdm.planExists.get((hfsm2::Short) r);
				const auto b = pd.taskBounds[r];
				if (!ex && b.first == hfsm2::INVALID_LONG) continue;
				k += "|P" + str(r) + (ex ? "e" : "-");
				int guard = 0;
				for (hfsm2::Long i = b.first; i != hfsm2::INVALID_LONG && guard < 64; i = pd.taskLinks[i].next, ++guard) {
					const auto& t = pd.tasks[i];
					k += str((int) t.origin) + ">" + str((int) t.destination) + ":" + str((int) t.type);
#if VT_HAS_PAYLOAD
					k += t.payload() ? "p" : "";
#endif
					k += ",";
				}
			}
			bool any = false;
			std::string m = "|M";
			auto& pdm = const_cast<typename Instance::PlanData&>(pd);
			for (int s = 0; s < N; ++s) {
				const bool su = pdm.tasksSuccesses.get((hfsm2::Short) s), fa = pdm.tasksFailures.get((hfsm2::Short) s);
				if (su || fa) { any = true; m += str(s) + (su ? "s" : "") + (fa ? "f" : "") + ","; }
			}
			if (any) k += m;
			return k;
		}
#endif
	};

	// ---------------------------------------------------------------------------------------------
	// violations

	struct Report {
		long total = 0;
		std::map<std::string, long> perFp;
		void violation(const std::string& prop, const std::string& fp, const std::string& msg, const History& h, const std::string& extra = "") {
			++total;
			long& n = perFp[fp];
			if (++n > 2) return;
			printf("{\"type\":\"violation\",\"property\":\"%s\",\"fingerprint\":\"%s\",\"message\":\"%s\",\"replay\":{\"program\":\"%s\",\"dsl\":\"%s\",\"history\":%s,\"enc\":\"%s\"%s}}\n",
				   prop.c_str(), jesc(fp).c_str(), jesc(msg).c_str(), VT_PROG_NAME, VT_PROG_DSL, historyJson(h).c_str(), historyEnc(h).c_str(),
				   extra.empty() ? "" : (",\"detail\":\"" + jesc(extra) + "\"").c_str());
			fflush(stdout);
		}
	};
	static Report& R() { static Report r; return r; }

	static std::string traceText(const std::vector<TraceEv>& t, size_t from = 0, size_t maxN = 80) {
		std::string s;
		for (size_t i = from; i < t.size() && i < from + maxN; ++i) {
			const TraceEv& e = t[i];
			if (e.meth == E_API) { s += std::string("|") + (e.a == OP_COUNT ? "destroy" : OP_NAMES[e.a]) + "| "; continue; }
			s += "S" + str(e.state) + "." + METH_NAMES[e.meth];
			if (e.layer) s += "@inj" + str((int) e.layer);
			if (e.meth == E_REQUEST) s += std::string("(") + KIND_NAMES[e.a] + " " + str(e.b) + ")";
			s += " ";
		}
		return s;
	}
};

}  // namespace vt

// ---- allocation interposers (only in the allocation-counting build) ------------------------------------------------
#ifdef VT_COUNT_ALLOCS
#include <new>
extern "C" void* __real_malloc(size_t);
extern "C" void* __real_calloc(size_t, size_t);
extern "C" void* __real_realloc(void*, size_t);
extern "C" void* __wrap_malloc(size_t n) { vt::noteAlloc(); return __real_malloc(n); }
extern "C" void* __wrap_calloc(size_t a, size_t b) { vt::noteAlloc(); return __real_calloc(a, b); }
extern "C" void* __wrap_realloc(void* p, size_t n) { vt::noteAlloc(); return __real_realloc(p, n); }
void* operator new(size_t n) { vt::noteAlloc(); void* p = __real_malloc(n ? n : 1); if (!p) abort(); return p; }
void* operator new[](size_t n) { vt::noteAlloc(); void* p = __real_malloc(n ? n : 1); if (!p) abort(); return p; }
void operator delete(void* p) noexcept { free(p); }
void operator delete[](void* p) noexcept { free(p); }
void operator delete(void* p, size_t) noexcept { free(p); }
void operator delete[](void* p, size_t) noexcept { free(p); }
#endif

// ---- sanitizer hooks: reports become recorded outcomes instead of killing the explorer -----------------------------
namespace vt { inline long& sanErrors() { static long n = 0; return n; } }
#if defined(__SANITIZE_ADDRESS__)
#define VT_ASAN 1
#elif defined(__has_feature)
#if __has_feature(address_sanitizer)
#define VT_ASAN 1
#endif
#endif
#ifdef VT_ASAN
extern "C" void __asan_set_error_report_callback(void (*)(const char*));
extern "C" void __ubsan_on_report() { ++vt::sanErrors(); }
namespace vt {
inline void asanReport(const char*) { ++sanErrors(); }
struct SanInit { SanInit() { __asan_set_error_report_callback(&asanReport); } };
static SanInit sanInit;
}
#endif

#ifdef HFSM2_VERIF
extern "C" void hfsm2_verif_break(const char* file, int line) noexcept {
	vt::BreakLog& b = vt::breaks();
	++b.count;
	b.file = file;
	b.line = line;
}
#endif

#include "engine/explore.hpp"
