// Engine part 1: everything a generated program needs *before* its FSM type is defined:
// library include, Env (the environment seam), probe state templates, config selection.
#pragma once

#ifdef VT_ASSERT
#define HFSM2_ENABLE_ASSERT
#endif
#ifdef VT_DEV_HEADER
#include <hfsm2/machine_dev.hpp>
#else
#include <hfsm2/machine.hpp>
#endif

// the library #undefs its *_AVAILABLE() macros at the end of the header: mirror the switches here
#if defined(HFSM2_ENABLE_PLANS) || defined(HFSM2_ENABLE_ALL)
#define VT_PLANS 1
#else
#define VT_PLANS 0
#endif
#if defined(HFSM2_ENABLE_UTILITY_THEORY) || defined(HFSM2_ENABLE_ALL)
#define VT_UTILITY 1
#else
#define VT_UTILITY 0
#endif
#if defined(HFSM2_ENABLE_SERIALIZATION) || defined(HFSM2_ENABLE_ALL)
#define VT_SERIAL 1
#else
#define VT_SERIAL 0
#endif
#if defined(HFSM2_ENABLE_TRANSITION_HISTORY) || defined(HFSM2_ENABLE_ALL)
#define VT_HISTORY 1
#else
#define VT_HISTORY 0
#endif
#if defined(HFSM2_ENABLE_STRUCTURE_REPORT) || defined(HFSM2_ENABLE_ALL)
#define VT_STRUCT 1
#else
#define VT_STRUCT 0
#endif
#if defined(HFSM2_ENABLE_LOG_INTERFACE) || defined(HFSM2_ENABLE_VERBOSE_DEBUG_LOG)
#define VT_LOG 1
#else
#define VT_LOG 0
#endif
#ifdef HFSM2_ENABLE_VERBOSE_DEBUG_LOG
#define VT_VERBOSE_LOG 1
#else
#define VT_VERBOSE_LOG 0
#endif

#include <cstdint>
#include <cstdio>
#include <execinfo.h>
#include <cstdlib>
#include <cstring>
#include <string>
#include <vector>

namespace vt {

// ---- allocation accounting (C11): counts operator new / malloc while the library's API is executing, excluding the harness's own callbacks
struct AllocState { long count = 0; int active = 0; int suspended = 0; int traceBudget = 0; };
inline AllocState& allocState() { static AllocState a; return a; }
struct NoCount { NoCount() { ++allocState().suspended; } ~NoCount() { --allocState().suspended; } };
inline void allocTrace();
inline void noteAlloc() { AllocState& a = allocState(); if (a.active && !a.suspended) { ++a.count; allocTrace(); } }

inline void allocTrace() {
	AllocState& a = allocState();
	if (a.traceBudget <= 0) return;
	--a.traceBudget; ++a.suspended;
	void* bt[24]; const int n = backtrace(bt, 24); backtrace_symbols_fd(bt, n, 2);
	--a.suspended;
}

// ---- descriptor emitted by gen/structures.py (independent numbering) -------------------------------
enum Kind { K_COMPOSITE = 0, K_RESUMABLE = 1, K_SELECTABLE = 2, K_UTILITARIAN = 3, K_RANDOM = 4, K_ORTHO = 5, K_LEAF = 6 };

struct StateDesc {
	int id, parent, prong, kind, headless, width, first, region, compo, ortho, size, inject, lite, unit;
};
struct Counts { int states, regions, compo, ortho, prongs, units, serialBits, taskCapacity; };

// ---- trace -----------------------------------------------------------------------------------------
enum Meth : uint8_t {
	M_SELECT, M_RANK, M_UTILITY, M_ENTRY_GUARD, M_ENTER, M_REENTER, M_PRE_UPDATE, M_UPDATE, M_POST_UPDATE,
	M_PRE_REACT, M_REACT, M_QUERY, M_POST_REACT, M_EXIT_GUARD, M_EXIT, M_PLAN_SUCCEEDED, M_PLAN_FAILED,
	// pseudo events written by the environment itself
	E_REQUEST,	 // state=origin a=kind b=dest c=payload tag (-1 none)
	E_CANCEL,	 // state=origin
	E_SUCCEED,	 // state=origin
	E_FAIL,
	E_CONSUME,
	E_RNG,		 // a=index of answer
	E_PLAN_APPEND,  // state=origin(callback) a=kind b=task origin c=task dest  d=region
	E_PLAN_CLEAR,
	E_API,		 // a=op type: marks the start of an API call
	M_COUNT
};
static const char* const METH_NAMES[] = {
	"select", "rank", "utility", "entryGuard", "enter", "reenter", "preUpdate", "update", "postUpdate",
	"preReact", "react", "query", "postReact", "exitGuard", "exit", "planSucceeded", "planFailed",
	"REQUEST", "CANCEL", "SUCCEED", "FAIL", "CONSUME", "RNG", "PLAN_APPEND", "PLAN_CLEAR", "API"};

struct TraceEv {
	int16_t state;
	uint8_t meth;
	uint8_t layer;	// 0 = the state's own handler, 1.. = injected base #layer-1
	int16_t ctl;	// control.stateId() seen by the callback (-1 n/a)
	int32_t a, b, c, d;
	const void* self;
};

// ---- choice points ---------------------------------------------------------------------------------
enum Cls : uint8_t { CLS_REQ = 1, CLS_GUARD = 2, CLS_CONSUME = 4, CLS_STATUS = 8, CLS_PLANEDIT = 16, CLS_PLANRESULT = 32,
					 CLS_SELECT = 64, CLS_UTIL = 128 };
static const unsigned CLS_RNG = 256, CLS_QUERY = 512, CLS_RANK = 1024, CLS_LIFEREQ = 2048;

struct PointKey {
	int16_t state;
	uint8_t meth;
	uint8_t layer;
	uint16_t occ;  // occurrence index within the step; 0xFFFF = sticky answer of (state, meth)
	bool operator==(const PointKey& o) const { return state == o.state && meth == o.meth && layer == o.layer && occ == o.occ; }
};
struct Choice { PointKey key; uint16_t alt; };
struct PointInfo { PointKey key; uint16_t menu; uint16_t reduced; };

struct Action {
	uint8_t type; int16_t a, b, c, d;
};
enum ActType : uint8_t { A_NONE, A_REQ, A_SUCCEED, A_FAIL, A_CONSUME, A_CANCEL, A_CANCEL_REQ, A_PLAN_APPEND, A_PLAN_CLEAR, A_SWALLOW, A_SWALLOW_REQ };

// ---- payloads --------------------------------------------------------------------------------------
struct Fat { double d; char c; };
struct alignas(16) Over { int v; char pad[20]; };
#if defined(VT_PAYLOAD_INT)
using Pay = int;
inline Pay makePay(int tag) { return 7000 + tag; }
inline int payTag(const Pay& p) { return p - 7000; }
#define VT_HAS_PAYLOAD 1
#elif defined(VT_PAYLOAD_FAT)
using Pay = Fat;
inline Pay makePay(int tag) { return Fat{tag + 0.25, (char) ('A' + tag % 26)}; }
inline int payTag(const Pay& p) { return (p.c == (char) ('A' + ((int) (p.d - 0.25)) % 26) && p.d - (int) p.d == 0.25) ? (int) (p.d - 0.25) : -777; }
#define VT_HAS_PAYLOAD 1
#elif defined(VT_PAYLOAD_OVER)
using Pay = Over;
inline Pay makePay(int tag) { Over o; o.v = tag ^ 0x5a5a; memset(o.pad, tag & 0x7f, sizeof o.pad); return o; }
inline int payTag(const Pay& p) { int t = p.v ^ 0x5a5a; for (char ch : p.pad) if (ch != (char) (t & 0x7f)) return -777; return t; }
#define VT_HAS_PAYLOAD 1
#else
#define VT_HAS_PAYLOAD 0
#endif

// ---- events ----------------------------------------------------------------------------------------
struct Ev { int tag; };
struct Qu { int tag; int visited; };

// ---- the environment -------------------------------------------------------------------------------
struct Env {
	std::vector<TraceEv> trace;
	std::vector<Choice> script;
	std::vector<PointInfo> points;
	std::vector<uint16_t> occ;	// per (state*M_COUNT+meth)*4+layer occurrence counter
	unsigned classes = 0;		// enabled choice classes
	bool recording = true;		// trace recording on/off
	bool monitoring = false;	// in-callback monitors on/off
	long engineErrors = 0;
	std::string engineErrorText;
	int rngCalls = 0;
	int stepTag = 0;	// base for payload tags
	int reqSeq = 0;		// requests issued by the environment in this step
	void* engine = nullptr;

	void beginStep(const std::vector<Choice>& s, int nStates) {
		script = s;
		points.clear();
		occ.assign((size_t) nStates * M_COUNT * 4 + 64, 0);
		rngCalls = 0;
		reqSeq = 0;
	}
	void error(const std::string& s) { if (!engineErrors++) engineErrorText = s; }

	void rec(int state, uint8_t meth, uint8_t layer, int ctl, const void* self, int a = 0, int b = 0, int c = 0, int d = 0) {
		NoCount nc;
		if (recording) trace.push_back(TraceEv{(int16_t) state, meth, layer, (int16_t) ctl, a, b, c, d, self});
	}

	// returns the alternative chosen at this point (0 = default)
	int choose(int state, uint8_t meth, uint8_t layer, int menu, int reduced, bool sticky, int nStatesForOcc) {
		if (menu <= 1) return 0;
		PointKey k{(int16_t) state, meth, layer, 0xFFFF};
		if (!sticky) {
			size_t idx = ((size_t) (state < 0 ? nStatesForOcc : state) * M_COUNT + meth) * 4 + layer;
			if (idx >= occ.size()) occ.resize(idx + 1, 0);
			k.occ = occ[idx]++;
		}
		int alt = 0;
		for (const Choice& c : script) {
			if (c.key == k) { alt = c.alt; break; }
			// occ 0xFFFE: the same decision at every occurrence of this callback in the step (adversarial guard scripts)
			if (c.key.occ == 0xFFFE && c.key.state == k.state && c.key.meth == k.meth && c.key.layer == k.layer && !sticky) { alt = c.alt; break; }
		}
		if (alt >= menu) { error("script alternative out of range (replay divergence)"); alt = 0; }
		bool seen = false;
		if (sticky)
			for (const PointInfo& p : points)
				if (p.key == k) { seen = true; break; }
		if (!seen) points.push_back(PointInfo{k, (uint16_t) menu, (uint16_t) reduced});
		return alt;
	}
};

// ---- scripted generator ----------------------------------------------------------------------------
static const float RNG_MENU[] = {0.0f, 0.5f, 0.25f, 0.75f, 0.99999994f /*1-2^-24*/, 0.99999988f /*1-2^-23*/, 5.9604645e-8f /*2^-24*/, 0.33333334f};
static const int RNG_EXACT = 4;  // the first RNG_EXACT answers make every product with the engine's utility alphabet exact
static const int RNG_MENU_SIZE = 8;
struct ScriptRng {
	Env* env = nullptr;
	float next() noexcept {
		NoCount nc;
		int k = env->rngCalls++;
		int alt = (env->classes & CLS_RNG) ? env->choose(-1, E_RNG, 0, RNG_MENU_SIZE, RNG_EXACT, true, 0) : 0;
		env->rec(-1, E_RNG, 0, -1, nullptr, alt, k);
		return RNG_MENU[alt];
	}
};

// ---- probes ----------------------------------------------------------------------------------------
template <typename FSM> struct Engine;

template <typename FSM, int ID, int LAYER, typename TBase>
struct ProbeImpl : TBase {
	using Args = typename FSM::Args;
	using ConstControl = hfsm2::detail::ConstControlT<Args>;
	using Control = hfsm2::detail::ControlT<Args>;
	using PlanControl = hfsm2::detail::PlanControlT<Args>;
	using FullControl = hfsm2::detail::FullControlT<Args>;
	using GuardControl = hfsm2::detail::GuardControlT<Args>;
	using EventControl = hfsm2::detail::EventControlT<Args>;
	using E = Engine<FSM>;

	void entryGuard(GuardControl& c) noexcept { E::guard(ID, M_ENTRY_GUARD, LAYER, this, c); }
	void enter(PlanControl& c) noexcept { E::life(ID, M_ENTER, LAYER, this, c); }
	void reenter(PlanControl& c) noexcept { E::life(ID, M_REENTER, LAYER, this, c); }
	void preUpdate(FullControl& c) noexcept { E::full(ID, M_PRE_UPDATE, LAYER, this, c); }
	void update(FullControl& c) noexcept { E::full(ID, M_UPDATE, LAYER, this, c); }
	void postUpdate(FullControl& c) noexcept { E::full(ID, M_POST_UPDATE, LAYER, this, c); }
	void preReact(const Ev& e, EventControl& c) noexcept { E::event(ID, M_PRE_REACT, LAYER, this, e, c); }
	void react(const Ev& e, EventControl& c) noexcept { E::event(ID, M_REACT, LAYER, this, e, c); }
	void postReact(const Ev& e, EventControl& c) noexcept { E::event(ID, M_POST_REACT, LAYER, this, e, c); }
	void query(Qu& q, ConstControl& c) const noexcept { E::query(ID, M_QUERY, LAYER, this, q, c); }
	void exitGuard(GuardControl& c) noexcept { E::guard(ID, M_EXIT_GUARD, LAYER, this, c); }
	void exit(PlanControl& c) noexcept { E::life(ID, M_EXIT, LAYER, this, c); }
};

// own-handler-only extras (select/rank/utility/planSucceeded/planFailed are not forwarded to injected bases)
template <typename FSM, int ID, typename... TInj>
struct Probe : ProbeImpl<FSM, ID, 0, typename FSM::template StateT<TInj...>> {
	using Base = ProbeImpl<FSM, ID, 0, typename FSM::template StateT<TInj...>>;
	using typename Base::Control;
	using typename Base::FullControl;
	using E = Engine<FSM>;
	hfsm2::Prong select(const Control& c) noexcept { return E::select(ID, this, c); }
#if VT_UTILITY
	typename FSM::Args::Rank rank(const Control& c) noexcept { return E::rank(ID, this, c); }
	typename FSM::Args::Utility utility(const Control& c) noexcept { return E::utility(ID, this, c); }
#endif
#if VT_PLANS
	void planSucceeded(FullControl& c) noexcept { if (E::planResult(ID, M_PLAN_SUCCEEDED, this, c)) c.succeed(); }
	void planFailed(FullControl& c) noexcept { if (E::planResult(ID, M_PLAN_FAILED, this, c)) c.fail(); }
#endif
};

template <typename FSM, int ID>
struct Probe<FSM, ID> : ProbeImpl<FSM, ID, 0, typename FSM::State> {
	using Base = ProbeImpl<FSM, ID, 0, typename FSM::State>;
	using typename Base::Control;
	using typename Base::FullControl;
	using E = Engine<FSM>;
	hfsm2::Prong select(const Control& c) noexcept { return E::select(ID, this, c); }
#if VT_UTILITY
	typename FSM::Args::Rank rank(const Control& c) noexcept { return E::rank(ID, this, c); }
	typename FSM::Args::Utility utility(const Control& c) noexcept { return E::utility(ID, this, c); }
#endif
#if VT_PLANS
	void planSucceeded(FullControl& c) noexcept { if (E::planResult(ID, M_PLAN_SUCCEEDED, this, c)) c.succeed(); }
	void planFailed(FullControl& c) noexcept { if (E::planResult(ID, M_PLAN_FAILED, this, c)) c.fail(); }
#endif
};

// injected base #N of state ID
template <typename FSM, int ID, int N>
struct Inject : ProbeImpl<FSM, ID, N + 1, typename FSM::State> {};

// a probe that overrides only enter / update / exit (interface-vs-verbose logging, C16)
template <typename FSM, int ID>
struct ProbeLite : FSM::State {
	using Args = typename FSM::Args;
	using PlanControl = hfsm2::detail::PlanControlT<Args>;
	using FullControl = hfsm2::detail::FullControlT<Args>;
	using E = Engine<FSM>;
	void enter(PlanControl& c) noexcept { E::life(ID, M_ENTER, 0, this, c); }
	void update(FullControl& c) noexcept { E::full(ID, M_UPDATE, 0, this, c); }
	void exit(PlanControl& c) noexcept { E::life(ID, M_EXIT, 0, this, c); }
};

}  // namespace vt

// ---- configuration ---------------------------------------------------------------------------------
#if VT_MANUAL
#define VT_CFG_MANUAL ::ManualActivation
#else
#define VT_CFG_MANUAL
#endif
#if VT_BOTTOM_UP
#define VT_CFG_ORDER ::BottomUpReactions
#else
#define VT_CFG_ORDER
#endif
#if VT_UTILITY && VT_SCRIPTED_RNG
#define VT_CFG_RNG ::RandomT<vt::ScriptRng>
#define VT_USE_SCRIPT_RNG 1
#else
#define VT_CFG_RNG
#define VT_USE_SCRIPT_RNG 0
#endif
#if VT_PLANS && defined(VT_TASKCAP)
#define VT_CFG_TASKCAP ::TaskCapacityN<VT_TASKCAP>
#else
#define VT_CFG_TASKCAP
#endif
#if VT_HAS_PAYLOAD
#define VT_CFG_PAYLOAD ::PayloadT<vt::Pay>
#else
#define VT_CFG_PAYLOAD
#endif
#define VT_CONFIG hfsm2::Config::ContextT<vt::Env*> VT_CFG_MANUAL VT_CFG_ORDER VT_CFG_RNG ::SubstitutionLimitN<VT_SUBLIMIT> VT_CFG_TASKCAP VT_CFG_PAYLOAD
