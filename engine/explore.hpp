// Engine part 3: the explorer. BFS over quiescent states (fixpoint) x deviation-bounded DFS inside each step.
#pragma once

namespace vt {

template <typename FSM>
struct Explorer {
	using E = Engine<FSM>;
	using Runner = typename E::Runner;
	static constexpr int N = E::N;

	struct Node { History hist; std::string key; int depth; bool activated; std::vector<uint8_t> active; };

	struct Exec {
		const History* hist = nullptr;
		Step step;
		std::vector<TraceEv> trace;
		size_t stepBegin = 0, stepEnd = 0;
		std::vector<PointInfo> points;
		std::vector<typename E::LogEv> log;	 // logger record (when a logger is attached)
		Snap before, after;
		std::vector<int> activityAfter;
		std::string keyBefore, keyAfter;
		bool activatedBefore = false, activatedAfter = false;
		long breaks = 0, sanReports = 0, allocs = 0;
		std::string breakSite;
		bool bad = false;  // a monitor flagged this execution: do not expand its successor state
		History full() const { History h = *hist; h.push_back(step); return h; }
	};

	Options& opt;
	std::chrono::steady_clock::time_point t0 = std::chrono::steady_clock::now();
	long states = 0, transitions = 0, compared = 0, maxDepth = 0, replayChecks = 0, discarded = 0;
	bool fixpoint = false, capped = false, deadlineHit = false;
	int devCompleted = 0;
	std::unordered_set<std::string> seen;
	std::unordered_set<size_t> distinctTraces;
	std::vector<std::string> samples;
	std::map<std::string, long> counters;  // free-form per-monitor counters (go to the evidence)
	Exec* cur = nullptr;				   // execution in progress (for in-callback monitors)
	std::vector<const void*> addr;		   // access<S>() addresses of the current instance
	unsigned props = 0;					   // enabled monitors
	unsigned propsConfigured = 0;		   // ... as given on the command line (props is cleared for auxiliary sub-runs)
	enum { P_C01 = 1, P_C03 = 2, P_C02 = 4, P_C04 = 8, P_C05 = 16, P_C13 = 32, P_C09 = 64, P_C14 = 128, P_C16 = 256, P_C06 = 512, P_C10 = 1024, P_C08 = 2048, P_C11 = 4096, P_C15 = 8192 };

	explicit Explorer(Options& o) : opt(o) {}

	double elapsed() const { return std::chrono::duration<double>(std::chrono::steady_clock::now() - t0).count(); }
	bool timeUp() { if (elapsed() > opt.deadline) { deadlineHit = true; return true; } return false; }

	void violation(const char* prop, const std::string& fp, const std::string& msg, const Exec& x, const std::string& extra = "") {
		E::R().violation(prop, fp, msg, x.full(), extra.empty() ? E::traceText(x.trace, x.stepBegin) : extra);
		// states reached by an execution that broke a *state* invariant (well-formedness, lifecycle balance, prescribed
		// configuration) are reported once and not expanded; violations about answers/observations do not corrupt the state
		const std::string p = prop;
		if (p == "C01" || p == "C02" || p == "C03" || p == "C11") const_cast<Exec&>(x).bad = true;
	}

	// ---------------------------------------------------------------------------------------------
	// expected activation (model of Automatic / Manual activation)
	static bool activationAfter(bool before, const Op& op) {
		if (op.type == OP_CONSTRUCT) return !E::MANUAL;
		if (op.type == OP_ENTER) return true;
		if (op.type == OP_EXIT) return false;
		return before;
	}

	// ---------------------------------------------------------------------------------------------
	// one execution on a fresh instance
	void run(const Node& node, const Step& step, Exec& x) {
		x.hist = &node.hist;
		x.step = step;
		x.bad = false;
		guardSnaps.clear();
		Runner r;
		r.useLogger = (props & (P_C06 | P_C16)) != 0 && !noLogger;
		r.env.monitoring = false;
		for (const Step& s : node.hist) r.apply(s, opt.fill);
		if (r.env.engineErrors) engineError("replay: " + r.env.engineErrorText, node.hist);
		if (r.fsm) {
			x.keyBefore = r.key();
			if (!node.key.empty() && x.keyBefore != node.key) {
				++replayChecks;
				if ((props | propsConfigured) & P_C10) E::R().violation("C10", "replay/history-not-reproducible", "replaying the same history on a fresh instance reaches " + x.keyBefore + " instead of " + node.key, node.hist);
				else engineError("replay of a stored history does not reproduce the stored state key (" + node.key + " vs " + x.keyBefore + ")", node.hist);
			}
			x.before = r.snap();
		} else
			x.keyBefore = "<none>";
		x.activatedBefore = node.activated;
		x.activatedAfter = activationAfter(node.activated, step.op);
		++replayChecks;
		const long b0 = breaks().count;
		const long san0 = sanErrors();
		const long alloc0 = allocState().count;
		cur = &x;
		r.env.monitoring = true;
		x.stepBegin = r.env.trace.size();
		installHook();
		r.apply(step, opt.fill);
		E::G().inCallback = nullptr;
		r.env.monitoring = false;
		x.stepEnd = r.env.trace.size();
		x.points = r.env.points;
		x.breaks = breaks().count - b0;
		if (x.breaks) x.breakSite = std::string(breaks().file) + ":" + str(breaks().line);
		x.sanReports = sanErrors() - san0;
		x.allocs = allocState().count - alloc0;
		if (r.env.engineErrors) engineError("step: " + r.env.engineErrorText, x.full());
		x.after = r.snap();
		x.keyAfter = r.key();
		addr.assign(N, nullptr);
		for (int s = 0; s < N; ++s) addr[s] = vt_access(*r.fsm, s);
		x.trace = r.env.trace;	// copy before live checks add to it
		x.log = r.logger.log;
		liveChecks(r, x);
		// destruction: everything entered must be exited
		const size_t destroyBegin = r.env.trace.size();
#if VT_MANUAL
		if (r.machineActive()) { r.env.beginStep({}, N); r.env.rec(-1, E_API, 0, -1, nullptr, OP_EXIT); r.fsm->exit(); }
#endif
		r.env.beginStep({}, N);
		r.destroy();
		x.trace.insert(x.trace.end(), r.env.trace.begin() + (long) destroyBegin, r.env.trace.end());
		cur = nullptr;
		++transitions;
		size_t h = 1469598103934665603ull;
		for (size_t i = x.stepBegin; i < x.stepEnd; ++i) { const TraceEv& e = x.trace[i]; h = (h ^ (size_t) (e.state * 131 + e.meth * 7 + e.a * 31 + e.b)) * 1099511628211ull; }
		distinctTraces.insert(h);
		// behaviour digest of the whole exploration (C15): op, deviations, every callback / request / answer, resulting state
		auto mix = [this](uint64_t v) { digest = (digest ^ v) * 1099511628211ull; };
		mix(step.op.type); mix(step.op.n); for (int i = 0; i < 3; ++i) { mix((uint64_t) step.op.r[i].kind + 7); mix((uint64_t) step.op.r[i].state + 11); }
		for (const Choice& c : step.script) { mix((uint64_t) c.key.state + 3); mix(c.key.meth); mix(c.key.occ); mix(c.alt); }
		for (size_t i = x.stepBegin; i < x.trace.size(); ++i) { const TraceEv& e = x.trace[i]; mix((uint64_t) e.state + 5); mix(e.meth); mix(e.layer); mix((uint64_t) e.a + 13); mix((uint64_t) e.b + 17); }
		for (char ch : x.keyAfter) mix((unsigned char) ch);
		for (int s = 0; s < N; ++s) { mix(x.after.active[s]); mix(x.after.resumable[s]); }
	}
	uint64_t digest = 1469598103934665603ull;

	void engineError(const std::string& msg, const History& h) {
		printf("{\"type\":\"engine_error\",\"message\":\"%s\",\"enc\":\"%s\"}\n", jesc(msg).c_str(), historyEnc(h).c_str());
		fflush(stdout);
		++counters["engine_errors"];
	}

	// ---------------------------------------------------------------------------------------------
	// monitors

	void installHook() {
		E::G().inCallback = [this](int kind, int state, int meth, void* control) { this->inCallback(kind, state, meth, control); };
	}

	template <typename TC>
	void wfInCallback(TC& c, int state, int meth, bool expectActive) {
		std::string why;
		auto act = [&](int s) { return c.isActive((hfsm2::StateID) s); };
		auto sub = [&](int s) { const hfsm2::Prong p = c.activeSubState((hfsm2::StateID) s); return p == hfsm2::INVALID_PRONG ? -1 : (int) p; };
		if (!wf(act, sub, expectActive, why)) {
			const std::string clause = why.substr(0, why.find(':'));
			violation("C01", "wf-in-callback/" + clause, "inside S" + str(state) + "." + METH_NAMES[meth] + ": " + why, *cur);
		}
		++counters["c01_in_callback_checks"];
	}

	void inCallback(int kind, int state, int meth, void* control) {
		if (!cur) return;
		if (props & P_C01) {
			// the configuration must be well formed whenever the machine is not applying a transition:
			// update / react / query / guard callbacks (not enter / exit / reenter, not plan result handlers)
			const bool during = cur->step.op.type == OP_CONSTRUCT || cur->step.op.type == OP_ENTER;
			const bool expectActive = during ? false : cur->activatedBefore;
			switch (kind) {
			case E::CB_FULL: wfInCallback(*static_cast<typename E::FullControl*>(control), state, meth, expectActive); break;
			case E::CB_EVENT: wfInCallback(*static_cast<typename E::EventControl*>(control), state, meth, expectActive); break;
			case E::CB_GUARD: wfInCallback(*static_cast<typename E::GuardControl*>(control), state, meth, expectActive); break;
			case E::CB_QUERY: wfInCallback(*static_cast<typename E::ConstControl*>(control), state, meth, expectActive); break;
			default: break;
			}
		}
		inCallbackMore(kind, state, meth, control);
	}

	// well-formedness of a configuration given by two query functions
	template <typename FA, typename FS>
	static bool wf(FA act, FS sub, bool expectActive, std::string& why) {
		if (act(0) != expectActive) { why = std::string("root: root reported ") + (act(0) ? "active" : "inactive") + " while the machine is " + (expectActive ? "activated" : "not activated"); return false; }
		for (int s = 1; s < N; ++s)
			if (act(s) && !act(E::D(s).parent)) { why = "orphan: S" + str(s) + " active while its parent S" + str(E::D(s).parent) + " is not"; return false; }
		for (int r = 0; r < N; ++r) {
			if (!E::isRegion(r) || !act(r)) continue;
			const int w = E::D(r).width;
			int cnt = 0, which = -1;
			for (int p = 0; p < w; ++p) if (act(E::child(r, p))) { ++cnt; which = p; }
			if (E::isOrtho(r)) {
				if (cnt != w) { why = "ortho: active orthogonal region S" + str(r) + " has " + str(cnt) + " of " + str(w) + " sub-states active"; return false; }
			} else {
				if (cnt != 1) { why = "compo-count: active region S" + str(r) + " has " + str(cnt) + " active sub-states"; return false; }
				if (sub(r) != which) { why = "active-sub: activeSubState(S" + str(r) + ")=" + str(sub(r)) + " but sub-state #" + str(which) + " is active"; return false; }
			}
		}
		return true;
	}

	void checkC01(const Exec& x) {
		std::string why;
		const Snap& a = x.after;
		auto act = [&](int s) { return a.active[s] != 0; };
		auto sub = [&](int s) { return a.activeSub[s]; };
		if (!wf(act, sub, x.activatedAfter, why)) {
			const std::string clause = why.substr(0, why.find(':'));
			violation("C01", "wf-quiescent/" + clause, "after " + x.step.op.text() + ": " + why, x);
			return;
		}
		// raw registry must agree with the public answers
		for (int r = 0; r < N; ++r)
			if (E::isCompo(r)) {
				const int raw = a.rawActive[E::D(r).compo];
				if (a.active[r] && raw != a.activeSub[r]) { violation("C01", "wf-quiescent/raw", "raw active prong of S" + str(r) + " disagrees with activeSubState", x); return; }
			}
		++compared;
	}

	// C03: lifecycle automaton over the complete trace of one instance (construction .. destruction)
	void checkC03(const Exec& x) {
		std::vector<uint8_t> entered(N, 0);
		std::vector<uint8_t> enteredInj((size_t) N * 4, 0);
		auto namedAncestorEntered = [&](int s) {
			int p = E::D(s).parent;
			while (p >= 0 && !E::named(p)) p = E::D(p).parent;
			return p < 0 || entered[p];
		};
		for (size_t i = 0; i < x.trace.size(); ++i) {
			const TraceEv& e = x.trace[i];
			if (e.meth == E_API) {
				continue;
			}
			if (e.meth > M_PLAN_FAILED || e.state < 0) continue;
			const int s = e.state;
			// this pointer: every callback runs on the object access<State>() returns
			if (e.layer == 0 && e.self != addr[s] && addr[s]) { violation("C03", "this/own", std::string("S") + str(s) + "." + METH_NAMES[e.meth] + " ran on a different object than access<S" + str(s) + ">() returns", x); return; }
			if (e.layer) {
				// injected bases are parts of the state: each of them sees the same alternation (their order relative to the
				// state's own callback is C05's business)
				const int L = e.layer < 4 ? e.layer : 3;
				uint8_t& in = enteredInj[(size_t) s * 4 + (size_t) L];
				if (e.meth == M_ENTER) { if (in) { violation("C03", "balance/double-enter-injected", "enter() delivered to injected base #" + str((int) e.layer) + " of S" + str(s) + " while it is already entered", x, E::traceText(x.trace, i > 12 ? i - 12 : 0, 30)); return; } in = 1; }
				else if (e.meth == M_EXIT) { if (!in) { violation("C03", "balance/exit-not-entered-injected", "exit() delivered to injected base #" + str((int) e.layer) + " of S" + str(s) + " while it is not entered", x, E::traceText(x.trace, i > 12 ? i - 12 : 0, 30)); return; } in = 0; }
				else if (e.meth == M_REENTER || e.meth == M_UPDATE || e.meth == M_REACT || e.meth == M_QUERY || e.meth == M_PRE_UPDATE || e.meth == M_POST_UPDATE) {
					if (!in) { violation("C03", "delivery/injected", std::string(METH_NAMES[e.meth]) + "() delivered to injected base #" + str((int) e.layer) + " of S" + str(s) + " which is not entered", x, E::traceText(x.trace, i > 12 ? i - 12 : 0, 30)); return; }
				}
				continue;
			}
			switch (e.meth) {
			case M_ENTER:
				if (entered[s]) { violation("C03", "balance/double-enter", "enter(S" + str(s) + ") while already entered", x, E::traceText(x.trace, i > 12 ? i - 12 : 0, 30)); return; }
				if (!namedAncestorEntered(s)) { violation("C03", "nesting/enter-before-parent", "enter(S" + str(s) + ") before its parent was entered", x, E::traceText(x.trace, i > 12 ? i - 12 : 0, 30)); return; }
				entered[s] = 1;
				break;
			case M_EXIT:
				if (!entered[s]) { violation("C03", "balance/exit-not-entered", "exit(S" + str(s) + ") while not entered", x, E::traceText(x.trace, i > 12 ? i - 12 : 0, 30)); return; }
				for (int t = s + 1; t < s + E::D(s).size; ++t)
					if (entered[t]) { violation("C03", "nesting/exit-before-child", "exit(S" + str(s) + ") while its descendant S" + str(t) + " is still entered", x, E::traceText(x.trace, i > 12 ? i - 12 : 0, 30)); return; }
				entered[s] = 0;
				break;
			case M_REENTER: case M_PRE_UPDATE: case M_UPDATE: case M_POST_UPDATE: case M_PRE_REACT: case M_REACT: case M_POST_REACT:
			case M_QUERY: case M_EXIT_GUARD:
				if (!entered[s]) { violation("C03", std::string("delivery/") + METH_NAMES[e.meth], std::string(METH_NAMES[e.meth]) + "(S" + str(s) + ") delivered to a state that is not entered", x, E::traceText(x.trace, i > 12 ? i - 12 : 0, 30)); return; }
				break;
			default: break;
			}
			// after manual exit() returns nothing may be entered: checked at the next API marker / end
		}
		for (size_t k = 0; k < enteredInj.size(); ++k)
			if (enteredInj[k]) { violation("C03", "balance/not-exited-at-end-injected", "an injected base of S" + str((int) (k / 4)) + " is still entered after exit()/destruction", x, E::traceText(x.trace, x.trace.size() > 30 ? x.trace.size() - 30 : 0, 30)); return; }
		for (int s = 0; s < N; ++s)
			if (entered[s]) { violation("C03", "balance/not-exited-at-end", "S" + str(s) + " still entered after exit()/destruction", x, E::traceText(x.trace, x.trace.size() > 30 ? x.trace.size() - 30 : 0, 30)); return; }
		++compared;
	}

	// extension points filled by monitors.hpp
	void inCallbackMore(int kind, int state, int meth, void* control);
	void liveChecks(Runner& r, Exec& x);
	void afterExec(const Node& node, Exec& x);
	void checkC02(const Node& node, Exec& x);
	void checkC05(const Node& node, Exec& x);
	void checkC04(const Node& node, Exec& x);
	void checkC13(const Node& node, Exec& x);
	void checkC09(Runner& r, Exec& x);
	// can a request to 'dest' be the one that activated 's'? only if s is on the path to dest, below dest, or in another
	// sub-tree of an orthogonal region on that path (two different prongs of a composite region are never activated by one request)
	static bool requestReaches(int s, int dest) {
		if (dest < 0 || dest >= E::N) return false;
		std::vector<int> pa;
		for (int t = s; t >= 0; t = E::D(t).parent) pa.push_back(t);
		for (int t = dest; t >= 0; t = E::D(t).parent)
			for (int u : pa) if (u == t) return t == s || t == dest || E::D(t).kind == K_ORTHO;
		return false;
	}
	void checkC06(const Node& node, Exec& x);
	void checkC16(const Node& node, Exec& x);
	void checkC11(const Node& node, Exec& x);
	bool noLogger = false, noMonitors = false;
	void planScenarios(const Node& n);
	template <typename TTransition> bool payloadOk(const TTransition& t, const Env& e, const std::string& where);
	void checkC08();
	void copyCheck(const Node& n, const Op& op, const Exec& ref);
	std::deque<Node> allNodes;
	struct Round { size_t first, last; bool cancelled; int pending; };
	std::vector<Round> rounds(const Exec& x) const;
	struct GuardSnap { int state, meth; std::vector<uint8_t> bits; std::vector<int> req; };
	std::vector<GuardSnap> guardSnaps;
	std::vector<uint8_t> pendingQuiescent;
	Snap initialSnap;
	std::vector<int> initialEnters;

	void process(const Node& node, Exec& x) {
		if (props & P_C01) checkC01(x);
		if (props & P_C03) checkC03(x);
		afterExec(node, x);
		if (x.breaks && (props & P_C11)) violation("C11", "assert/" + x.breakSite.substr(x.breakSite.find_last_of('/') + 1), "library assertion " + x.breakSite + " during " + x.step.op.text(), x);
		if (x.allocs && (props & P_C11)) violation("C11", "alloc/dynamic-allocation", str(x.allocs) + " dynamic allocation(s) while the library executed " + x.step.op.text(), x);
#ifdef VT_COUNT_ALLOCS
		if (props & P_C11) ++counters["c11_api_calls_with_allocation_counting"];
#endif
		if (x.sanReports && (props & P_C11)) violation("C11", "sanitizer/report", str(x.sanReports) + " AddressSanitizer/UBSan report(s) during " + x.step.op.text() + " (report text on stderr)", x);
	}

	// ---------------------------------------------------------------------------------------------
	// alphabet

	std::vector<int> kindsAll() const {
		std::vector<int> k;
		for (int kk : {T_CHANGE, T_RESTART, T_RESUME, T_SELECT, T_UTILIZE, T_RANDOMIZE}) if (E::kindAllowed(kk)) k.push_back(kk);
		return k;
	}

	std::vector<Op> baseAlphabet(const Node& n) const {
		std::vector<Op> ops;
		if (!n.activated) {
#if VT_MANUAL
			Op o; o.type = OP_ENTER; ops.push_back(o);
#endif
			return ops;
		}
		for (int k : kindsAll())
			for (int s = 0; s < N; ++s) { Op o; o.type = OP_IMMEDIATE; o.n = 1; o.r[0] = Req{(int8_t) k, (int16_t) s}; ops.push_back(o); }
		for (int s = 1; s < N; ++s) { Op o; o.type = OP_IMMEDIATE; o.n = 1; o.r[0] = Req{(int8_t) T_SCHEDULE, (int16_t) s}; ops.push_back(o); }
		{ Op o; o.type = OP_UPDATE; ops.push_back(o); }
		{ Op o; o.type = OP_REACT; ops.push_back(o); }
		{ Op o; o.type = OP_QUERY; ops.push_back(o); }
		{ Op o; o.type = OP_RESET; ops.push_back(o); }
#if VT_MANUAL
		{ Op o; o.type = OP_EXIT; ops.push_back(o); }
#endif
#if VT_PLANS
		// external succeed(state) / fail(state) on an active state, one pending mark at a time
		if ((opt.mode == "plans" || opt.marks) && n.key.find("|M") == std::string::npos)
			for (int s = 1; s < N; ++s)
				if (s < (int) n.active.size() && n.active[s])
					for (int t : {(int) OP_SUCCEED, (int) OP_FAIL}) { Op o; o.type = (uint8_t) t; o.arg = (int16_t) s; ops.push_back(o); }
#endif
		extraOps(n, ops);
		return ops;
	}
	void extraOps(const Node& n, std::vector<Op>& ops) const;

	std::vector<Op> batchAlphabet(const Node& n) const {
		std::vector<Op> ops;
		if (!n.activated || opt.batch < 2) return ops;
		std::vector<int> kinds = opt.tier == "thorough" ? kindsAll() : std::vector<int>{T_CHANGE, T_RESTART, T_RESUME};
		kinds.push_back(T_SCHEDULE);
		std::vector<Req> reqs;
		for (int k : kinds)
			for (int s = (k == T_SCHEDULE ? 1 : 0); s < N; ++s) reqs.push_back(Req{(int8_t) k, (int16_t) s});
		const int cap = VT_COUNTS.compo;  // queue capacity
		for (const Req& a : reqs)
			for (const Req& b : reqs) {
				if (cap < 2) continue;
				Op o; o.type = OP_BATCH; o.n = 2; o.r[0] = a; o.r[1] = b; ops.push_back(o);
			}
		if (opt.batch >= 3 && cap >= 3) {
			// triples over the reduced kinds only (change/restart/resume)
			std::vector<Req> red;
			for (int k : {T_CHANGE, T_RESTART, T_RESUME})
				for (int s = 0; s < N; ++s) red.push_back(Req{(int8_t) k, (int16_t) s});
			for (const Req& a : red) for (const Req& b : red) for (const Req& c : red) { Op o; o.type = OP_BATCH; o.n = 3; o.r[0] = a; o.r[1] = b; o.r[2] = c; ops.push_back(o); }
		}
		return ops;
	}

	bool deviates(const Op& op) const {
		// which ops get callback deviations: the stepping ops always; request ops only when guards/answers are of interest
		if (op.type == OP_UPDATE || op.type == OP_REACT || op.type == OP_QUERY || op.type == OP_CONSTRUCT || op.type == OP_ENTER) return true;
		if (op.type == OP_IMMEDIATE && opt.immReduced && op.r[0].kind > T_RESUME) return false;
		if (op.type == OP_IMMEDIATE || op.type == OP_RESET) return opt.devImmediate;
		if (op.type == OP_BATCH) return false;
		return false;
	}

	// ---------------------------------------------------------------------------------------------
	// exploration

	void consider(const Node& node, const Exec& x, std::deque<Node>& frontier) {
		if (x.bad) return;	// violating states are reported once and not expanded
		// the substitution limit was hit with a request still queued: the library itself treats this as a contract breach
		// (assertion in processTransitions); such states are counted, not expanded (every monitor assumes an empty queue)
		if (x.keyAfter.find("|Q") != std::string::npos) { ++counters["states_with_leftover_queue_not_expanded"]; return; }
		if ((long) seen.size() >= opt.maxStates) { capped = true; return; }
		if (seen.insert(x.keyAfter).second) {
			Node nn{x.full(), x.keyAfter, node.depth + 1, x.activatedAfter, x.after.active};
			if (nn.depth > maxDepth) maxDepth = nn.depth;
			if (samples.size() < 4 && nn.depth >= 2 && (nn.hist.back().script.size() || samples.size() < 2))
				samples.push_back("{\"history\":" + historyJson(nn.hist) + ",\"state_key\":\"" + jesc(nn.key) + "\",\"step_trace\":\"" + jesc(E::traceText(x.trace, x.stepBegin, 40)) + "\"}");
			frontier.push_back(std::move(nn));
		}
#if VT_MANUAL
		else if (x.step.op.type == OP_EXIT && x.step.script.empty() && !x.activatedAfter && !inReenter) {
			// an exited instance collapses onto an already known key (the key holds what the statements let a user observe);
			// whatever else an exit leaves behind must not matter: re-activation is explored from EVERY exit history, not only
			// from the representative of the key
			inReenter = true;
			Node nn{x.full(), x.keyAfter, node.depth + 1, false, {}};
			Op en; en.type = OP_ENTER;
			++counters["reenter_from_every_exit_history"];
			exploreStep(nn, en, frontier, opt.dev);
			inReenter = false;
		}
#endif
	}
	bool inReenter = false;

	void exploreStep(const Node& node, const Op& op, std::deque<Node>& frontier, int dev) {
		Exec base;
		run(node, Step{op, {}}, base);
		process(node, base);
		consider(node, base, frontier);
		if (dev < 1) return;
		// answers of the environment (select / rank / utility / generator output: sticky points) deviate on every op;
		// actions inside callbacks (requests, cancels, consumes ...) only on the ops selected by deviates()
		const bool actions = deviates(op);
		if (!actions) {
			bool anyAnswer = false;
			for (const PointInfo& p : base.points) if (p.key.occ == 0xFFFF) anyAnswer = true;
			if (!anyAnswer || op.type == OP_BATCH) return;
		}
		if ((props & P_C04) && opt.devImmediate && actions)
			// adversarial guard scripts: the same guard takes the same non-default decision in *every* round
			for (size_t i = 0; i < base.points.size(); ++i) {
				const PointInfo p = base.points[i];
				if (p.key.meth != M_ENTRY_GUARD && p.key.meth != M_EXIT_GUARD) continue;
				for (int alt = 1; alt < p.reduced; ++alt) {
					Exec xs;
					PointKey k = p.key; k.occ = 0xFFFE;
					run(node, Step{op, {Choice{k, (uint16_t) alt}}}, xs);
					process(node, xs);
					consider(node, xs, frontier);
				}
			}
		for (size_t i = 0; i < base.points.size(); ++i) {
			const PointInfo p = base.points[i];
			if (!actions && p.key.occ != 0xFFFF) continue;
			const int lim = ((op.type == OP_IMMEDIATE || op.type == OP_RESET) && opt.immReduced) ? p.reduced : p.menu;
			for (int alt = 1; alt < lim; ++alt) {
				Exec x1;
				run(node, Step{op, {Choice{p.key, (uint16_t) alt}}}, x1);
				process(node, x1);
				consider(node, x1, frontier);
				if (dev < 2 || x1.bad || !actions) continue;
				// second deviation: only at points that come after the first one, reduced menu
				size_t j = 0;
				while (j < x1.points.size() && !(x1.points[j].key == p.key)) ++j;
				for (size_t q = j + 1; q < x1.points.size(); ++q) {
					const PointInfo p2 = x1.points[q];
					for (int alt2 = 1; alt2 < p2.reduced; ++alt2) {
						Exec x2;
						run(node, Step{op, {Choice{p.key, (uint16_t) alt}, Choice{p2.key, (uint16_t) alt2}}}, x2);
						process(node, x2);
						consider(node, x2, frontier);
					}
				}
				if (timeUp()) return;
			}
		}
	}

	void explore() {
		std::deque<Node> frontier;
		Node root{{}, "", 0, false, {}};
		{	// reference for reset(): the first activation with default answers
			Runner r;
			r.env.monitoring = false;
			Step c; c.op.type = OP_CONSTRUCT;
			r.apply(c, opt.fill);
#if VT_MANUAL
			Step en; en.op.type = OP_ENTER;
			r.apply(en, opt.fill);
#endif
			initialSnap = r.snap();
			for (const TraceEv& e : r.env.trace) if (e.meth == M_ENTER && e.layer == 0) initialEnters.push_back(e.state);
		}
		// initial state(s): construction (with deviations in the initial activation for Automatic)
		{
			Op c; c.type = OP_CONSTRUCT;
			exploreStep(root, c, frontier, opt.dev);
		}
		std::vector<Node> all;
		while (!frontier.empty()) {
			if (timeUp()) break;
			Node n = std::move(frontier.front());
			frontier.pop_front();
			++states;
			if (props & (P_C08 | P_C10)) allNodes.push_back(n);
			for (const Op& op : baseAlphabet(n)) {
				exploreStep(n, op, frontier, opt.dev);
				if (deadlineHit) break;
			}
			if (!deadlineHit)
				for (const Op& op : batchAlphabet(n)) {
					exploreStep(n, op, frontier, 0);
					if ((transitions & 1023) == 0 && timeUp()) break;
				}
			perState(n);
		}
		fixpoint = frontier.empty() && !capped && !deadlineHit;
		if (fixpoint) devCompleted = opt.dev;
		finish();
	}
	void perState(const Node& n);
	void finish();
	static unsigned propsFromString(const std::string& p);
	bool selfCheck();
	int replay(const std::string& enc);

	void summary() {
		std::string s = "[";
		for (size_t i = 0; i < samples.size(); ++i) s += (i ? "," : "") + samples[i];
		s += "]";
		std::string c = "{";
		bool first = true;
		for (auto& kv : counters) { c += std::string(first ? "" : ",") + "\"" + kv.first + "\":" + str(kv.second); first = false; }
		c += "}";
		printf("{\"type\":\"summary\",\"program\":\"%s\",\"dsl\":\"%s\",\"states\":%ld,\"transitions\":%ld,\"compared\":%ld,\"distinct_keys\":%zu,\"distinct_traces\":%zu,"
			   "\"max_depth\":%ld,\"dev\":%d,\"batch\":%d,\"digest\":\"%016llx\",\"fixpoint\":%s,\"capped\":%s,\"deadline_hit\":%s,\"violations\":%ld,\"counters\":%s,\"wall\":%.2f,\"samples\":%s}\n",
			   VT_PROG_NAME, VT_PROG_DSL, states, transitions, compared, seen.size(), distinctTraces.size(), maxDepth, opt.dev, opt.batch, (unsigned long long) digest,
			   fixpoint ? "true" : "false", capped ? "true" : "false", deadlineHit ? "true" : "false", E::R().total, c.c_str(), elapsed(), s.c_str());
		fflush(stdout);
	}
};

}  // namespace vt

#include "engine/monitors.hpp"

// ---------------------------------------------------------------------------------------------------

int main(int argc, char** argv) {
	using namespace vt;
	using E = Engine<FSM>;
	Options& opt = E::G().opt;
	unsigned props = 0;
	for (int i = 1; i < argc; ++i) {
		const std::string a = argv[i];
		auto next = [&]() { return std::string(i + 1 < argc ? argv[++i] : ""); };
		if (a == "--prop") opt.prop = next();
		else if (a == "--tier") opt.tier = next();
		else if (a == "--dev") opt.dev = atoi(next().c_str());
		else if (a == "--batch") opt.batch = atoi(next().c_str());
		else if (a == "--deadline") opt.deadline = atof(next().c_str());
		else if (a == "--max-states") opt.maxStates = atol(next().c_str());
		else if (a == "--classes") opt.classes = (unsigned) strtoul(next().c_str(), nullptr, 0);
		else if (a == "--dev-immediate") opt.devImmediate = atoi(next().c_str()) != 0;
		else if (a == "--imm-reduced") opt.immReduced = atoi(next().c_str()) != 0;
		else if (a == "--common") opt.common = atoi(next().c_str()) != 0;
		else if (a == "--fill") opt.fill = (unsigned char) strtoul(next().c_str(), nullptr, 0);
		else if (a == "--replay") opt.replay = next();
		else if (a == "--verbose") opt.verbose = true;
		else if (a == "--mode") opt.mode = next();
		else if (a == "--marks") opt.marks = atoi(next().c_str()) != 0;
		else if (a == "--initial-cancel") opt.initialCancel = atoi(next().c_str()) != 0;
		else if (a == "--info") {
			printf("{\"type\":\"info\",\"program\":\"%s\",\"states\":%d,\"sizeof_instance\":%zu}\n", VT_PROG_NAME, VT_STATE_COUNT, sizeof(FSM::Instance));
			return 0;
		}
	}
	Explorer<FSM> ex(opt);
	ex.props = Explorer<FSM>::propsFromString(opt.prop);
	ex.propsConfigured = ex.props;
	Engine<FSM>::G().hiddenInKey = (ex.props & Explorer<FSM>::P_C11) != 0;
#ifdef VT_COUNT_ALLOCS
	{	// self-test of the allocation interposers: an allocation inside the counting window must be seen, one outside must not
		void* volatile sink = nullptr;
		void* (*volatile pm)(size_t) = &malloc;
		const long c0 = allocState().count;
		sink = pm(8); free(sink);
		const long c1 = allocState().count;
		++allocState().active;
		sink = pm(8); free(sink);
		const long c2 = allocState().count;
		{ int* volatile n = new int(1); delete n; }
		const long c3 = allocState().count;
		{ NoCount nc; sink = pm(8); free(sink); }
		const long c4 = allocState().count;
		--allocState().active;
		if (c1 != c0 || c2 <= c1 || c3 <= c2 || c4 != c3) { printf("{\"type\":\"engine_error\",\"message\":\"allocation interposer self-test failed (%ld %ld %ld %ld %ld)\",\"enc\":\"\"}\n", c0, c1, c2, c3, c4); return 0; }
		ex.counters["c11_alloc_selftest_ok"] = 1;
		allocState().count = 0;
		allocState().traceBudget = 2;  // the first offending allocations are shown with a backtrace on stderr
	}
#endif
	E::buildMenus();
	if (!opt.replay.empty()) return ex.replay(opt.replay);
	if (!ex.selfCheck()) { ex.summary(); return 0; }
	ex.explore();
	ex.summary();
	return 0;
}
