#!/usr/bin/env python3
"""seed3_stage.py <cNN> <A|B> [extra checks...]: vet and store one round-3 seeded change.
The sub-agent's output (/tmp/seed3_<cNN>_out/mutant<X>.diff, demo<X>.cpp, meta<X>.json; written against /repo's HEAD) is staged as
seeded/<CNN>-<E|F>/ (A->E, B->F), vetted with seed_vet.sh (patch applies, demo fails with / passes without, repository suite
passes, the property's quick check [+ extra checks]) and kept only if all of the confirmation holds; otherwise the directory is removed."""
import json, os, re, shutil, subprocess, sys
pid, ab = sys.argv[1].lower(), sys.argv[2]
extra = sys.argv[3:]
src = "/tmp/seed3_%s_out" % pid
sid = "%s-%s" % (pid.upper(), {"A": "E", "B": "F"}[ab])
dst = "/verif/seeded/" + sid
need = [os.path.join(src, f % ab) for f in ("mutant%s.diff", "demo%s.cpp", "meta%s.json")]
if not all(os.path.exists(p) and os.path.getsize(p) > 0 for p in need):
    print("NOT DELIVERED", sid); sys.exit(2)
os.makedirs(dst, exist_ok=True)
shutil.copy(need[0], dst + "/patch.diff"); shutil.copy(need[1], dst + "/demo.cpp")
subprocess.run(["/verif/seed_vet.sh", sid, pid.upper()] + extra, capture_output=True, text=True)
log = open("/var/tmp/vet_%s.log" % sid, errors="replace").read()
with_exit = re.search(r"demo_with_change_exit=(\d+)", log)
without_exit = re.search(r"demo_without_change_exit=(\d+)", log)
suite_ok = "51 passed | 0 failed" in log
if "PATCH-FAILED" in log or not (with_exit and without_exit and with_exit.group(1) != "0" and without_exit.group(1) == "0" and suite_ok):
    print("NOT KEPT", sid, "patch-failed" if "PATCH-FAILED" in log else "", with_exit and with_exit.group(1), without_exit and without_exit.group(1), "suite_ok=%s" % suite_ok)
    shutil.rmtree(dst); sys.exit(1)
checks, cur = {}, None
for line in log.splitlines():
    m = re.match(r"== check (C\d+) quick", line)
    if m:
        cur = m.group(1); checks[cur] = {"verdict": "no result", "fingerprints": []}; continue
    if cur:
        m = re.match(r"\s+([a-zA-Z0-9_/().\-:=|!<>&*,;\[\]]+): \[", line)
        if m: checks[cur]["fingerprints"].append(m.group(1))
        m = re.search(r"%s quick: (\w+) in" % cur, line)
        if m: checks[cur]["verdict"] = m.group(1)
try:
    meta = json.load(open(need[2]))
except Exception as e:
    meta = {"summary": open(need[2], errors="replace").read()[:2000]}
json.dump({
    "breaks_property": pid.upper(),
    "origin": "independent sub-agent (round 3) with its own scratch worktree of /repo, given only the property text and one-line descriptions of the two round-1 changes to avoid",
    "agent_description": meta,
    "verified_by_me": {
        "applies_to": "repo HEAD at the time of vetting (%s); vetted on a scratch copy under /var/tmp" % os.popen("git -C /repo log --oneline | head -1").read().strip(),
        "repository_suite_with_change": "51 test cases passed, 0 failed (tools_suite.sh)",
        "demo_exit_with_change": int(with_exit.group(1)), "demo_exit_without_change": int(without_exit.group(1)),
    },
    "checks_run_against_it": checks,
}, open(dst + "/meta.json", "w"), indent=1)
print("kept", sid, {k: (v["verdict"], v["fingerprints"][:3]) for k, v in checks.items()})
