#!/usr/bin/env python3
"""seed_regress.py [ids...]: re-run, for every stored seeded change (seeded/<ID>-<X>/), the quick checks that are recorded
as catching it, against a scratch copy of the CURRENT /repo with the change applied (seed_vet.sh, SKIP_SUITE=1).
Writes seeded/RESULTS.md. A seeded change that no longer applies or is no longer reported is listed as REGRESSION.
Nothing here is part of MANIFEST.json: it is the regression suite of the checks themselves (about 2 minutes per change)."""
import json, os, re, subprocess, sys, time

root = "/verif/seeded"
ids = sys.argv[1:] or sorted(os.listdir(root))
rows = []
bad = 0
for sid in ids:
    mp = os.path.join(root, sid, "meta.json")
    if not os.path.exists(mp):
        continue
    meta = json.load(open(mp))
    want = [c for c, v in meta.get("checks_run_against_it", {}).items() if v.get("verdict") == "VIOLATION"]
    if not want:
        rows.append((sid, "-", "no check recorded as catching it", "n/a"))
        continue
    t0 = time.time()
    env = dict(os.environ, SKIP_SUITE="1")
    subprocess.run(["/verif/seed_vet.sh", sid] + want, env=env, capture_output=True, text=True)
    log = open("/var/tmp/vet_%s.log" % sid, errors="replace").read()
    got = {}
    cur = None
    for line in log.splitlines():
        m = re.match(r"== check (C\d+) quick", line)
        if m:
            cur = m.group(1); got[cur] = "no result"
        m = re.search(r"(C\d+) quick: (\w+) in", line)
        if m:
            got[m.group(1)] = m.group(2)
        m = re.match(r"VIOLATION property=(C\d+) ", line)
        if m and got.get(m.group(1)) in (None, "no result"):
            got[m.group(1)] = "VIOLATION"
    demo = re.search(r"demo_with_change_exit=(\d+)", log)
    ok = "PATCH-FAILED" not in log and demo and demo.group(1) != "0" and all(got.get(c) == "VIOLATION" for c in want)
    if not ok:
        bad += 1
    rows.append((sid, " ".join(want), " ".join("%s:%s" % (c, got.get(c, "?")) for c in want) + (" PATCH-FAILED" if "PATCH-FAILED" in log else ""),
                 "ok" if ok else "REGRESSION"))
    print(rows[-1], "%.0fs" % (time.time() - t0), flush=True)
with open(os.path.join(root, "RESULTS.md"), "w") as fh:
    fh.write("# Seeded changes vs. the quick checks recorded as catching them\n\n")
    fh.write("tree: %s\n\n" % subprocess.run("git -C /repo log --oneline | head -1", shell=True, capture_output=True, text=True).stdout.strip())
    fh.write("| seeded change | checks expected to report it | result | |\n|---|---|---|---|\n")
    for r in rows:
        fh.write("| %s | %s | %s | %s |\n" % r)
sys.exit(1 if bad else 0)
